"""C20 Evaluation leaves no residue on the machine stack or the x87 stack (DESIGN.md §3 C20)."""
from ..interp import Obj, Sym, View, Lin
from ..chibi import CG, Trace, stack_effect, depth_delta, cat_of, linearise, flow_heights, apply_invariants, INT_CATS
from ..interp import Infeasible
from ..build import AnalysisBroken

U = 'codegen.c'

# typing relation of each expression kind (what add_type guarantees; proved by R01.2):
# children whose type equals the node's type share its cell.
SAME_ALL = ('ND_ADD', 'ND_SUB', 'ND_MUL', 'ND_DIV', 'ND_MOD', 'ND_BITAND', 'ND_BITOR', 'ND_BITXOR', 'ND_ASSIGN')
SAME_LHS = ('ND_NEG', 'ND_BITNOT', 'ND_SHL', 'ND_SHR')
INT_RESULT = ('ND_EQ', 'ND_NE', 'ND_LT', 'ND_LE', 'ND_NOT', 'ND_LOGAND', 'ND_LOGOR')
CMP = ('ND_EQ', 'ND_NE', 'ND_LT', 'ND_LE')
STMT_KINDS = ('ND_RETURN', 'ND_IF', 'ND_FOR', 'ND_DO', 'ND_SWITCH', 'ND_CASE', 'ND_BLOCK', 'ND_GOTO', 'ND_GOTO_EXPR', 'ND_LABEL', 'ND_EXPR_STMT', 'ND_ASM')


def preset(cg, kind):
    """abstract node of `kind` obeying the typing relation"""
    def mk(ctx):
        n = cg.node('node', kind)
        ty = cg.tcell('node.ty')
        if kind in SAME_ALL:
            n.fields['ty'] = ty
            n.fields['lhs'] = cg.node('lhs', ty=ty)
            n.fields['rhs'] = cg.node('rhs', ty=ty)
        elif kind in SAME_LHS:
            n.fields['ty'] = ty
            n.fields['lhs'] = cg.node('lhs', ty=ty)
            if kind in ('ND_SHL', 'ND_SHR'):
                n.fields['rhs'] = cg.node('rhs', ty=cg.tcell('rhs.ty', only=('bool', 'char', 'short', 'int', 'long', 'uchar', 'ushort', 'uint', 'ulong', 'enum')))
        elif kind in INT_RESULT:
            n.fields['ty'] = cg.tcell('node.ty', only=('int',))
            if kind in CMP:
                t2 = cg.tcell('lhs.ty')
                n.fields['lhs'] = cg.node('lhs', ty=t2)
                n.fields['rhs'] = cg.node('rhs', ty=t2)
            else:
                n.fields['lhs'] = cg.node('lhs')
                n.fields['rhs'] = cg.node('rhs')
        elif kind == 'ND_COND':
            # typing relation (add_type, checked by R20.11): both arms are converted to the node's type, or one arm is void: then the node
            # is void and the other arm keeps whatever type it has
            n.fields['cond'] = cg.node('cond')
            which = ctx.choose(3, 'conditional: both arms have the node\'s type / the second operand is void / the third operand is void')
            if which == 0:
                n.fields['ty'] = ty
                n.fields['then'] = cg.node('then', ty=ty)
                n.fields['els'] = cg.node('els', ty=ty)
            else:
                vt = cg.tcell('node.ty', only=('void',))
                n.fields['ty'] = vt
                n.fields['then'] = cg.node('then', ty=vt if which == 1 else cg.tcell('then.ty'))
                n.fields['els'] = cg.node('els', ty=vt if which == 2 else cg.tcell('els.ty'))
        elif kind == 'ND_COMMA':
            n.fields['ty'] = ty
            n.fields['lhs'] = cg.node('lhs')
            n.fields['rhs'] = cg.node('rhs', ty=ty)
        elif kind == 'ND_MEMBER':
            n.fields['ty'] = ty
            m = Obj('Member', lazy=True, label='member')
            m.fields['ty'] = ty
            n.fields['member'] = m
            n.fields['lhs'] = cg.node('lhs')
        elif kind == 'ND_VAR':
            n.fields['ty'] = ty
            v = Obj('Obj', lazy=True, label='var')
            v.fields['ty'] = ty
            n.fields['var'] = v
        elif kind == 'ND_DEREF':
            n.fields['ty'] = ty
            pt = cg.tcell('lhs.ty', only=('ptr', 'array'))
            n.fields['lhs'] = cg.node('lhs', ty=pt)
        elif kind == 'ND_ADDR':
            n.fields['ty'] = cg.tcell('node.ty', only=('ptr',))
            n.fields['lhs'] = cg.node('lhs')
        elif kind == 'ND_LABEL_VAL':
            n.fields['ty'] = cg.tcell('node.ty', only=('ptr',))
        elif kind == 'ND_NUM':
            n.fields['ty'] = cg.tcell('node.ty', only=('bool', 'char', 'short', 'int', 'long', 'uchar', 'ushort', 'uint', 'ulong', 'enum', 'float', 'double', 'ldouble', 'ptr'))
        elif kind == 'ND_CAS':
            n.fields['ty'] = cg.tcell('node.ty', only=('bool',))
            b = cg.tcell('obj', only=INT_CATS + ('ptr',))
            n.fields['cas_addr'] = cg.node('cas_addr', ty=cg.ptr_to(b, 'cas_addr.ty'))
            n.fields['cas_old'] = cg.node('cas_old', ty=cg.ptr_to(b, 'cas_old.ty'))
            n.fields['cas_new'] = cg.node('cas_new', ty=b)
        elif kind == 'ND_EXCH':
            b = cg.tcell('obj', only=INT_CATS + ('ptr',))
            n.fields['ty'] = b
            n.fields['lhs'] = cg.node('lhs', ty=cg.ptr_to(b, 'lhs.ty'))
            n.fields['rhs'] = cg.node('rhs', ty=b)
        elif kind == 'ND_STMT_EXPR':
            # typing relation (add_type): the body is non-empty, its last statement is an expression statement and
            # the node has that expression's type
            n.fields['ty'] = ty
            last = cg.node('body.last', 'ND_EXPR_STMT', lhs=cg.node('body.lhs', ty=ty), next=0)
            if ctx.choose(2, 'statement expression with one / several statements') == 0:
                n.fields['body'] = last
            else:
                n.fields['body'] = cg.node('body.first', next=last)
        elif kind in ('ND_MEMZERO', 'ND_NULL_EXPR'):
            n.fields['ty'] = cg.tcell('node.ty', only=('void', 'int'))
        elif kind == 'ND_VLA_PTR':
            n.fields['ty'] = cg.tcell('node.ty', only=('ptr', 'vla'))
        else:
            n.fields['ty'] = ty
        return n
    return mk


def classes(v):
    """type classes still possible for a type value: subset of {'ld','void','other'}"""
    cs = set()
    for c in cat_of(v):
        cs.add('ld' if c == 'ldouble' else ('void' if c == 'void' else 'other'))
    return cs


def child_ty(it, ctx, child):
    if isinstance(child, View):
        child = it.settle(child)
    if isinstance(child, Obj):
        t = child.fields.get('ty')
        if t is None:
            return None
        return it.settle(t) if isinstance(t, View) else t
    return None


_seen_depth = {}
_stmt_in_expr = set()   # expression kinds whose arm generates statements (while the enclosing expression may hold pushed operands)
_exits = {}             # (kind, class, label field) -> [verdict, message, trace]   non-local exits of gen_stmt arms
_label_defs = {}        # (kind, label field) -> {'set': {symbol template: value text}, 'trace': [...]}
_x87_live = {}     # (fname, kind) -> {child label: (x87 depth pending while the child is evaluated, trace)}
_x87_seen = set()
_depth_at = {}     # (fname, kind, child label) -> [ok | None, message, trace]   `depth` vs %rsp when the child is handed to the generator
DEPTH_EV = 'depth'


def _record_depth(cg):
    """every interpreter of the generator built from `cg` records the value of `depth` right before a child (operand, sub-statement, address) is
    handed to gen_expr / gen_stmt / gen_addr: a ('depth', value) event precedes the child's event"""
    if getattr(cg, '_c20_depth_events', False):
        return
    orig = cg.interp

    def interp(*a, **kw):
        it = orig(*a, **kw)
        for name in ('gen_expr', 'gen_stmt', 'gen_addr'):
            base = it.cut.get(name)
            if base is None:
                continue

            def h(it_, ctx, n, args, base=base, name=name):
                a0 = args[0] if args else None
                if isinstance(a0, Obj) and a0.meta.get('root'):
                    return base(it_, ctx, n, args)
                at = len(ctx.events)
                d = it_.read_global('depth')
                r = base(it_, ctx, n, args)
                if len(ctx.events) > at and ctx.events[at][0] == name:
                    ctx.events.insert(at, (DEPTH_EV, d))
                return r
            it.cut[name] = h
        return it
    cg.interp = interp
    cg._c20_depth_events = True


def _child_depths(ctx, nodes):
    """{id(pseudo node): value of `depth` when that child was handed over}; None when the events and the nodes do not correspond"""
    ds, cur = [], None
    for e in ctx.events:
        if e[0] == DEPTH_EV:
            cur = e[1]
        elif e[0] in ('gen_expr', 'gen_stmt', 'gen_addr'):
            ds.append(cur); cur = None
    ps = [n for n in nodes if n[0] == 'pseudo']
    if len(ps) != len(ds):
        return None
    return {id(n): d for n, d in zip(ps, ds)}


def _rsp_reach(nodes):
    """{id(pseudo node): set of %rsp displacements (bytes; None = after an adjustment by a non-constant) with which the emitted code reaches the
    child, following its own jumps}, converged?  Children are stack-neutral (R20.1 / R20.2 / R20.7)."""
    from ..chibi import parse_ins, JCC
    labels = {}
    for i, n in enumerate(nodes):
        if n[0] == 'label':
            labels.setdefault(n[1], []).append(i)

    def target(lab, i):
        m = _re.match(r'^(\d+)([fb])$', lab)
        if m:
            c = labels.get(m.group(1), [])
            c = [j for j in c if j > i] if m.group(2) == 'f' else [j for j in c if j < i]
            return (min(c) if m.group(2) == 'f' else max(c)) if c else None
        c = labels.get(lab)
        return c[0] if c else None
    seen = {}
    work = [(0, 0)]
    steps = 0
    while work:
        i, h = work.pop()
        if i >= len(nodes):
            continue
        hs = seen.setdefault(i, set())
        if h in hs:
            continue
        steps += 1
        if steps > 20000 or len(hs) > 8:
            return {}, False
        hs.add(h)
        n = nodes[i]
        if n[0] != 'ins':
            work.append((i + 1, h)); continue
        ins = parse_ins(n[1])
        if ins is None:
            work.append((i + 1, h)); continue
        mn, ops = ins
        if mn == 'jmp' or mn in JCC:
            t = ops[0] if ops else ''
            j = None if t.startswith('*') else target(t, i)
            if j is not None:
                work.append((j, h))
            if mn != 'jmp':
                work.append((i + 1, h))
            continue
        if mn == 'ret':
            continue
        r, x, known = stack_effect(n[1])
        work.append((i + 1, None if (h is None or isinstance(r, tuple)) else h + r))
    return {id(nodes[i]): hs for i, hs in seen.items() if nodes[i][0] == 'pseudo'}, True


def _depth_vs_rsp(fname, kind, ctx, tr, nodes, entry_depth, labfn=None):
    heights, reliable = _rsp_reach(nodes)
    _depth_vs_rsp2(fname, kind, ctx, tr, nodes, heights, entry_depth, reliable, labfn)


def _depth_vs_rsp2(fname, kind, ctx, tr, nodes, heights, entry_depth, reliable, labfn=None):
    """one path of an arm: at every child the arm generates, `depth` has grown by one per 8 bytes the emitted code has moved %rsp down since the
    arm was entered (heights: id(pseudo) -> set of %rsp displacements with which the emitted code reaches the child)"""
    dm = _child_depths(ctx, nodes)
    rank = {True: 0, None: 1, False: 2}
    for n in nodes:
        if n[0] != 'pseudo':
            continue
        lab = _lab(n[2]) if len(n) > 2 else n[1]
        if labfn is not None:
            lab = labfn(lab)
        hs = heights.get(id(n))
        if not hs:
            continue          # not reached by the emitted code's own control flow
        d = dm.get(id(n)) if dm is not None else None
        dl = Lin.of(d) if d is not None else None
        e0 = Lin.of(entry_depth)
        verdict, msg = True, ''
        if dl is None or e0 is None or not reliable or None in hs:
            verdict, msg = None, 'the value of `depth` or of %rsp at this point is not a constant distance from its value at the entry of the arm'
        else:
            dd = dl.add(e0, -1)
            if not isinstance(dd, int):
                verdict, msg = None, '`depth` is %r here: not a constant distance from its value at the entry of the arm' % (d,)
            else:
                wrong = sorted(h for h in hs if h != -8 * dd)
                if wrong:
                    verdict = False
                    msg = ('%s of %s hands its child `%s` to the generator with %%rsp %+d bytes from its value at the entry of the arm, while `depth` has changed by %+d slot(s) (%+d bytes): a break, continue or goto '
                           'that leaves a statement expression inside this child releases `8*depth` minus the level of its target and is off by %d bytes at every execution; a label inside it records the wrong level'
                           % (fname, kind, lab, wrong[0], dd, -8 * dd, abs(wrong[0] + 8 * dd)))
        cur = _depth_at.get((fname, kind, lab))
        if cur is None or rank[verdict] > rank[cur[0]]:
            _depth_at[(fname, kind, lab)] = [verdict, msg, tr.text()]


def _lab(o):
    l = getattr(o, 'label', None) or '?'
    return l[5:] if l.startswith('node.') else l


def check_kind(cg, rep, rule, fname, kind, mk, ret_stmt=False, value_from_last_stmt=False):
    """explore one node kind; verify stack heights over the emitted code's own control flow for
    every type-class assignment of the node and its children"""
    it, res = cg.explore(fname, mk)
    nret = 0
    results = {}     # (ncls) -> {ldset: [ok, msg, facts]}
    where = '%s:%d' % (U, cg.cu.fn(fname).line)
    for ctx, out in res:
        if out[0] != 'ret':
            continue
        try:
            apply_invariants(it, ctx, ctx.root)
        except Infeasible:
            continue
        nret += 1
        tr = Trace(ctx)
        nodes = linearise(tr)
        if fname == 'gen_expr' and any(n[0] == 'pseudo' and n[1] == 'stmt' for n in nodes):
            _stmt_in_expr.add(kind)
        if fname == 'gen_stmt':
            nodes = _nonlocal_exits(ctx, tr, nodes, kind)
        root = ctx.root
        nty = root.fields.get('ty')
        nty = it.settle(nty) if isinstance(nty, View) else nty

        def cell_id(t):
            return id(t.cell) if isinstance(t, View) else id(t)
        kids = [n[2] for n in nodes if n[0] == 'pseudo' and n[1] == 'expr']
        kid_cell = {}
        cellcls = {}
        nid = cell_id(nty) if nty is not None else ('free', 'node')
        cellcls[nid] = classes(nty) if nty is not None else {'ld', 'void', 'other'}
        if fname != 'gen_expr':
            cellcls[nid] = {'other'}
        for k in kids:
            kt = child_ty(it, ctx, k)
            cid = cell_id(kt) if kt is not None else ('free', id(k))
            cs = classes(kt) if kt is not None else {'ld', 'void', 'other'}
            kid_cell[id(k)] = cid
            cellcls[cid] = (cellcls[cid] & cs) if cid in cellcls else cs
        ids = list(cellcls)

        def assigns(i, cur):
            if i == len(ids):
                yield dict(cur); return
            for c in sorted(cellcls[ids[i]]):
                cur[ids[i]] = c
                yield from assigns(i + 1, cur)
        # straight-line accounting identity: depth vs emitted rsp motion
        rsp_sum = 0
        sym_adj = False
        for n in nodes:
            if n[0] == 'ins':
                r, x, known = stack_effect(n[1])
                if isinstance(r, tuple):
                    sym_adj = True
                else:
                    rsp_sum += r
        dd = depth_delta(ctx)
        if not sym_adj:
            okd = isinstance(dd, int) and dd * -8 == rsp_sum
            dk = (fname, kind, okd)
            if dk in _seen_depth:
                _seen_depth[dk] += 1
            else:
              _seen_depth[dk] = 1
              rep.ob('R20.3', '%s:%s:%s:depth-tracks-rsp' % (U, fname, kind), okd,
                   'on a path of %s(%s) `depth` changes by %r slots but the emitted templates move %%rsp by %+d bytes' % (fname, kind, dd, rsp_sum),
                   where=where, facts={'trace': tr.text()})
        _depth_vs_rsp(fname, kind, ctx, tr, nodes, Sym('depth0', 'int'))
        for a in assigns(0, {}):
            ncls = a[nid]
            def pe(n, a=a):
                if n[1] == 'expr':
                    return (0, 1 if a[kid_cell[id(n[2])]] == 'ld' else 0)
                return (0, 0)
            live = []
            exits, ext, problems = flow_heights(nodes, pe, on_pseudo=lambda n, h: live.append((n, h)) if h[1] > 0 else None)
            for n, h in live:
                lab = _lab(n[2]) if len(n) > 2 else n[1]
                _x87_live.setdefault((fname, kind), {}).setdefault(lab, (h[1], tr.text()))
            _x87_seen.add((fname, kind))
            want = 1 if (fname == 'gen_expr' and ncls == 'ld') else 0
            msgs = []
            for p in problems:
                msgs.append(p)
            for h in exits:
                if h != (0, want):
                    msgs.append('falls through with %%rsp %+d bytes and x87 depth %+d (contract: +0, %+d)' % (h[0], h[1], want))
            for lab, h in ext:
                wx = 0
                if ret_stmt:
                    # the value stays for the epilogue: on the x87 stack exactly when the operand is long double; an aggregate by its layout
                    # (one long double member: R20.5 decides the count per class); nothing for `return;` and for an operand of any other
                    # type, void included (R20.16: the parser gives the operand the class of the function's return type)
                    rk = [k for k in kids if _lab(k) == 'lhs']
                    rc = a[kid_cell[id(rk[0])]] if rk else None
                    rt = child_ty(it, ctx, rk[0]) if rk else None
                    if rc == 'ld':
                        wx = 1
                    elif rc == 'other' and (rt is None or set(cat_of(rt)) & {'struct', 'union'}):
                        wx = h[1] if h[1] in (0, 1) else 0
                    else:
                        wx = 0
                if h != (0, wx):
                    msgs.append('jumps to %s with %%rsp %+d bytes and x87 depth %+d pending' % (lab, h[0], h[1]))
            ld = frozenset(_lab(k) for k in kids if a[kid_cell[id(k)]] == 'ld')
            r = results.setdefault(ncls, {})
            cur = r.get(ld)
            if cur is None or (cur[0] and msgs):
                r[ld] = [not msgs, '; '.join(sorted(set(msgs))), {'path': ctx.trail[-8:], 'trace': tr.text()}]
    for ncls, r in sorted(results.items()):
        fails = {ld: v for ld, v in r.items() if not v[0]}
        minimal = [ld for ld in fails if not any(o < ld for o in fails)]
        base = '%s:%s:%s/node=%s' % (U, fname, kind, ncls if fname == 'gen_expr' else '-')
        if not fails:
            rep.ob(rule, base, True, '', where=where)
        for ld in sorted(minimal, key=lambda x: sorted(x)):
            key = base + ('/ld=' + ','.join(sorted(ld)) if ld else '')
            rep.ob(rule, key, False,
                   '%s of %s (node type class %s%s): %s' % (fname, kind, ncls, (', long double operand(s): ' + ','.join(sorted(ld))) if ld else '', fails[ld][1]),
                   where=where, facts=fails[ld][2])
    return nret


def run(P, rep, tier):
    cg = CG(P)
    rep.explanation = ('Effect system over the code generator: gen_expr/gen_stmt are abstractly interpreted once per node kind on an abstract '
                       'node obeying the typing relation; recursive calls are replaced by the contract being proved (machine stack 0, x87 +1 iff long double), '
                       'so the per-kind result composes by structural induction to all programs. %rsp and x87 motion of every emitted template is summed per path.')
    rep.assumptions += ['children satisfy the contract (induction hypothesis)', 'typing relation of each kind as produced by add_type (R01.2; conditional, comma, assignment, statement expression and call nodes: R20.11, R20.10; the operand of a return statement: R20.16, decided on the parser)',
                        'instruction stack effects per Intel SDM for the mnemonics chibicc emits', 'ND_FUNCALL argument lists analysed separately (R20.3 call-site rule)',
                        'R20.14: no jump INTO a statement expression (GNU C forbids it): the case labels a switch jumps to and the target of a goto emitted at depth 0 are not deeper than the jump',
                        'R20.13: the term machine follows a run-time loop of the emitted code for one and two iterations',
                        'R20.15: a child that the arm\'s own emitted code reaches only through labels inside the child (the body of a switch) is not compared; children are stack-neutral (R20.1/2/7)']
    rep.rule('R20.1', 'every gen_expr arm: machine-stack effect 0 and x87 effect +1 iff the node is long double, assuming the same of its children', floor=60)
    rep.rule('R20.2', 'every gen_stmt arm: machine-stack effect 0 and x87 effect 0 (return: the value is left for the epilogue - on the x87 stack exactly when the operand is long double, by its layout for an aggregate, nothing for any other operand type, void included, and for `return;`)', floor=12)
    rep.rule('R20.3', '`depth` bookkeeping equals emitted %rsp motion on every path', floor=40)
    _record_depth(cg)
    # hook: remember root in ctx
    orig_explore = cg.explore
    def explore(fname, make_node, **kw):
        def mk2(ctx):
            n = make_node(ctx)
            ctx.root = n
            return n
        return orig_explore(fname, mk2, **kw)
    cg.explore = explore
    handled = expr_kinds_handled(cg)
    if len(handled) < 30:
        raise AnalysisBroken('gen_expr: only %d node kinds recognised in its switches' % len(handled))
    for kind in cg.node_kinds:
        if kind in STMT_KINDS or kind not in handled or kind == 'ND_FUNCALL':
            continue
        n = check_kind(cg, rep, 'R20.1', 'gen_expr', kind, preset(cg, kind), value_from_last_stmt=(kind == 'ND_STMT_EXPR'))
        if n == 0:
            rep.undecided('R20.1', '%s:gen_expr:%s' % (U, kind), 'no returning path for a kind gen_expr has an arm for')
    r_calls(cg, P, rep, tier)
    r_call_value(cg, P, rep)
    r_value(cg, rep)
    r_ret_buffer(P, rep)
    r_typing_relation(P, rep)
    from ..lib_c20ret import r_return_shape
    r_return_shape(P, rep)          # R20.16: the operand the parser gives a return node has the x87 class of the function's return type
    from ..lib_c20init import r_initialiser_trees
    r_initialiser_trees(P, rep)     # R20.18: the comma chains the parser builds for partially initialised objects, typed by add_type
    rep.rule('R20.7', 'every gen_addr arm: machine-stack effect 0 and x87 effect 0 (an address is left in %rax only), assuming the contract of its children; an operand evaluated only for its side effects is discarded there as well', floor=5)
    ahandled = expr_kinds_handled(cg, 'gen_addr')
    if len(ahandled) < 4:
        raise AnalysisBroken('gen_addr: only %d node kinds recognised in its switch' % len(ahandled))
    for kind in cg.node_kinds:
        if kind not in ahandled or kind == 'ND_FUNCALL':      # gen_addr of a call is gen_expr of the call: R20.5
            continue
        n = check_kind(cg, rep, 'R20.7', 'gen_addr', kind, preset(cg, kind))
        if n == 0:
            rep.undecided('R20.7', '%s:gen_addr:%s' % (U, kind), 'no returning path for a kind gen_addr has an arm for')
    from ..lib_types import r_atomic_builtin_operands
    rep.rule('R20.8', 'typing relation the per-kind effect rules rely on for the atomic builtins: add_type converts the value operand of ND_EXCH / ND_CAS to the type of the atomic object for every arithmetic operand type, so no long double operand stays on the x87 stack and no floating operand in %xmm0', floor=200)
    r_atomic_builtin_operands(P, rep, 'R20.8')
    from .c04 import r_alloca
    rep.rule('R20.6', 'alloca moves every pending pushed temporary down with %rsp (full byte count, same distance), so later pops read what was pushed', floor=5)
    r_alloca(cg, rep, rule='R20.6')
    for kind in STMT_KINDS:
        n = check_kind(cg, rep, 'R20.2', 'gen_stmt', kind, preset_stmt(cg, kind), ret_stmt=(kind == 'ND_RETURN'))
        if n == 0:
            rep.undecided('R20.2', '%s:gen_stmt:%s' % (U, kind), 'no returning path')
    r_nonlocal_exits(cg, rep)
    r_depth_at_children(cg, rep)
    # the x87 register stack is empty whenever an operand, sub-statement or address is generated: the operand may contain a call, the callee needs
    # all eight registers (psABI 3.2.3: empty on entry), and in a recursive function every pending value costs one register per activation
    rep.rule('R20.12', 'no arm of gen_expr / gen_stmt / gen_addr holds a value on the x87 register stack while it generates one of its children (a pending value is spilled to memory first): with the contract of R20.1 this makes the x87 stack empty at every call instruction, so recursion depth and callees cannot overflow it', floor=45)
    for (fname, kind) in sorted(_x87_seen):
        bad = _x87_live.get((fname, kind), {})
        fn = cg.cu.fn(fname)
        where = '%s:%d' % (U, fn.line if fn else 0)
        if not bad:
            rep.ob('R20.12', '%s:%s:%s:x87-empty-while-children-are-generated' % (U, fname, kind), True, '', where=where)
        for lab, (d, text) in sorted(bad.items()):
            rep.ob('R20.12', '%s:%s:%s:x87-value-pending-while-%s-is-generated' % (U, fname, kind, lab), False,
                   '%s of %s generates its child `%s` while %d value(s) of its own are on the x87 register stack: a call inside that child enters the callee with a non-empty x87 stack, '
                   'and a recursive function (`return n ? p[n] * f(p, n - 1) : p[0];`) loses one register per activation - from depth 8 on the result is NaN' % (fname, kind, lab, d),
                   where=where, facts={'trace': text})


def r_depth_at_children(cg, rep):
    """R20.3 compares `depth` with the emitted %rsp motion at the END of an arm. gen_jump / gen_label (R20.14) read `depth` in the MIDDLE of arms: a
    child may be a statement expression containing a jump out of it or a label. So the identity has to hold whenever a child is generated."""
    rep.rule('R20.15', 'whenever an arm of gen_expr / gen_stmt / gen_addr (or the code pushing the arguments of a call) hands a child to the generator, `depth` has grown since the entry of the arm by exactly one per 8 bytes the emitted code has moved %rsp down (along the emitted code\'s own control flow): jumps out of and labels inside a statement expression in that child compute the bytes to release from `depth`, and a call inside it aligns %rsp by the parity of `depth`', floor=70)
    for (fname, kind, lab), (verdict, msg, text) in sorted(_depth_at.items()):
        fn = cg.cu.fn(fname)
        where = '%s:%d' % (U, fn.line if fn else 0)
        key = '%s:%s:%s:depth-counts-rsp-while-%s-is-generated' % (U, fname, kind, lab)
        if verdict is None:
            rep.undecided('R20.15', key, msg, where=where)
        else:
            rep.ob('R20.15', key, verdict, msg, where=where, facts={'trace': text})


# aggregate shapes of this module in addition to the psABI vocabulary of sa/lib_abi.py (same format: size, align, members); they exist
# in the vocabulary only while the C20 call rules run
EXTRA_SHAPES = {
    'u_L':  (16, 16, [('ldouble', 0)]),                                  # union { long double }: class X87 as a return value
    'u_il': (8, 8, [('int', 0), ('long', 0)]),                           # union of integers: INTEGER
    'u_fd': (8, 8, [('float', 0), ('double', 0)]),                       # union of floating members: SSE
    'u_l3': (24, 8, [('long', 0), ('long', 8), ('long', 16), ('char', 0)]),  # union larger than 16 bytes (array-like): MEMORY
    's_e':  (0, 1, []),                                                  # GNU empty struct: no eightbyte, takes no register and no memory
}


class _shapes:
    """the module's extra aggregate shapes are part of the shared vocabulary inside a `with` block only"""
    def __enter__(self):
        from ..lib_abi import STRUCTS
        self.added = [k for k in EXTRA_SHAPES if k not in STRUCTS]
        for k in self.added:
            STRUCTS[k] = EXTRA_SHAPES[k]
        return self

    def __exit__(self, *a):
        from ..lib_abi import STRUCTS
        for k in self.added:
            STRUCTS.pop(k, None)
        return False


def r_calls(cg, P, rep, tier):
    with _shapes():
        _r_calls(cg, P, rep, tier)


def _r_calls(cg, P, rep, tier):
    """ND_FUNCALL is analysed on concrete calls (argument lists make the per-kind exploration explode):
    for each argument class at each stack parity the stack pushed for the call is released after it."""
    from ..lib_abi import Builder
    from .c06 import run_caller, run_return, ret_locs
    from ..x86 import Unknown
    rep.rule('R20.5', 'call expressions: everything pushed for a call (arguments, alignment padding, long double slots) is released after it, and `depth` returns to its value before the call, for every argument class (scalars, structs, unions, the empty aggregate) and stack parity, and never more than was pushed; a result of class X87 (long double, or an aggregate that is one long double) is taken from %st(0) by the caller exactly when the callee left it there, also when the value of the call is discarded', floor=60)
    B = Builder(P)
    where = '%s:%d' % (U, cg.cu.fn('push_args').line if cg.cu.fn('push_args') else 0)
    sigs = [[], ['int'], ['double'], ['ldouble'], ['s_ld'], ['s_l3'], ['long'] * 7, ['long'] * 8, ['double'] * 9, ['double'] * 10,
            ['long'] * 7 + ['ldouble'], ['long'] * 6 + ['ldouble'], ['double'] * 9 + ['ldouble'], ['long'] * 7 + ['s_l3'], ['long'] * 6 + ['s_ll'],
            ['ldouble', 'ldouble'], ['long'] * 7 + ['ldouble', 'int'], ['s_l3', 'ldouble', 'long', 'long', 'long', 'long', 'long', 'long', 'long']]
    for ret in ('int', 'ldouble', 's_ll', 's_l3'):
        for types in sigs:
            for depth0 in (0, 1):
                _call(cg, B, rep, types, ret, depth0, 'gen_expr', where)
    # union and empty aggregate arguments: in registers, in memory (class or register exhaustion), at both parities
    usigs = [['u_il'], ['u_fd'], ['u_L'], ['u_l3'], ['u_Ll'], ['u_Ld'], ['long'] * 6 + ['u_il'], ['double'] * 8 + ['u_fd'], ['long'] * 7 + ['u_L']]
    for types in usigs:
        for depth0 in (0, 1):
            _call(cg, B, rep, types, 'int', depth0, 'gen_expr', where)
    for types in (['s_e'], ['int', 's_e', 'double'], ['long'] * 6 + ['s_e', 'long'], ['double'] * 8 + ['s_e', 'double']):
        _call(cg, B, rep, types, 'int', 0, 'gen_expr', where)
    # every return class of an aggregate (INTEGER/SSE registers, X87 = %st(0), MEMORY), as an operand and as a discarded value
    agg = ('s_ll', 's_dd', 's_ld', 's_L', 's_Le', 'u_Ll', 'u_Ld', 's_l3', 'u_L', 'u_il', 'u_fd', 'u_l3', 's_e')
    for ret in ('int', 'double', 'ldouble') + agg:
        for entry in ('gen_expr', 'gen_discard'):
            if entry == 'gen_discard' and not cg.cu.fn('gen_discard'):
                continue
            if entry == 'gen_expr' and ret in ('int', 'ldouble', 's_ll', 's_l3'):
                continue
            _call(cg, B, rep, ['int'], ret, 0, entry, where)
    _r_call_exits(cg, B, rep, where)
    # callee side: `return v;` of every aggregate return class leaves on the x87 stack exactly what the caller takes from it
    for t in agg:
        key = '%s:ND_RETURN:returns-%s:x87' % (U, t)
        try:
            tr, s2 = run_return(cg, B, t)
        except Unknown as e:
            rep.undecided('R20.5', key, str(e), where=where); continue
        want = 1 if ret_locs(t) == 'X87' else 0
        rep.ob('R20.5', key, len(s2.st) == want and len(s2.stack) == 0,
               'returning an aggregate of type %s leaves %d value(s) on the x87 stack at the epilogue (the caller takes %d from it: psABI class %s) and %d pushed slot(s)' % (t, len(s2.st), want, ret_locs(t) if isinstance(ret_locs(t), str) else 'INTEGER/SSE', len(s2.stack)),
               where=where, facts={'trace': tr.text()[-12:]})


def r_call_value(cg, P, rep):
    """a call of aggregate type leaves exactly one usable value: the address in %rax after the call designates an object that holds the
    returned bytes and stays valid while the enclosing expression is evaluated (the caller's return buffer). These are the return-value
    obligations of C06 R06.5 (caller and callee side, every return class), re-issued: they state this clause of C20 as well."""
    from ..report import Report, reissue
    from ..lib_abi import Builder
    from . import c06
    rep.rule('R20.9', 'a call returning an aggregate leaves one usable value: its address in %rax is the caller\'s return buffer, filled from the registers / %st(0) the callee used, or - class MEMORY - the hidden pointer the callee copied the object to and handed back in %rax, never storage of the callee\'s frame (same obligations as C06 R06.5)', floor=60)
    sub = Report('C06')
    with _shapes():      # also for this module's union shapes and the empty aggregate
        c06.r_returns(cg, Builder(P), sub)
    reissue(rep, 'R20.9', sub, 'the value of a call returning an aggregate is not usable: ', keep=lambda o: o['rule'] == 'R06.5')


# typing relation the presets assume for the kinds an operand of type void (or of a type other than the node's) can reach, as a predicate
# over the stack classes ('ld' | 'void' | 'other') of (node, operand, operand); must say the same as preset()
REL = {
    'ND_COND': (('then', 'els'), lambda n, a, b: (n == a == b) or (n == 'void' and 'void' in (a, b)),
                'both arms have the class of the node, or one arm is void and so is the node'),
    # 'none': an operand without a type - the ND_NULL_EXPR the parser puts into the comma chains of initialisers (elements without an
    # initialiser), VLA size computations, empty initialisers: gen_expr leaves no value for it, so the node must not announce one on the x87 stack
    'ND_COMMA': (('lhs', 'rhs'), lambda n, a, b: (n == b) if b != 'none' else n != 'ld',
                 'the node has the class of its right operand; when that operand is an untyped null expression (which leaves no value) the node is not long double'),
    'ND_ASSIGN': (('lhs', 'rhs'), lambda n, a, b: n == a == b, 'node, left and (converted) right operand have the same class'),
}
REL_TYPES = ('void', 'bool', 'int', 'long', 'double', 'ldouble', 'ptr', 'struct')
UNTYPED = 'untyped'        # operand "type" of the comma relation: a null expression as the parser builds it (no type; add_type gives it none)


def r_typing_relation(P, rep):
    """R20.1 is proved per node kind on an abstract node obeying the typing relation of that kind; for the kinds where the relation is not
    simply "operands have the node's type" it is checked here against add_type itself, on every pair of operand types: after add_type the
    (node, operand, operand) stack classes must be a combination preset() explores."""
    from ..lib_types import Types, typed_leaf
    T = Types(P)
    rep.rule('R20.11', 'the typing relation the per-kind effect rules assume (which operands share the node\'s long double / void / other class) is what add_type produces, for every pair of operand types of a conditional, comma and assignment expression and for statement expressions', floor=150)
    where = 'type.c:%d' % T.tu.fn('add_type').line

    def cls(it, t):
        t = it.settle(t) if isinstance(t, View) else t
        if not isinstance(t, Obj):
            return None
        k = t.fields.get('kind')
        return 'ld' if k == T.E['TY_LDOUBLE'] else ('void' if k == T.E['TY_VOID'] else ('other' if isinstance(k, int) else None))

    def cls0(it, t):
        t = it.settle(t) if isinstance(t, View) else t
        return 'none' if (t is None or (isinstance(t, int) and t == 0)) else cls(it, t)

    def leaf(it, tn, label):
        if tn == UNTYPED:
            n = Obj('Node', lazy=False, label=label)
            n.fields.update({'kind': T.E['ND_NULL_EXPR'], 'ty': 0, 'tok': Obj('Token', lazy=True, label=label + '.tok')})
            return n
        if tn == 'struct':
            n = typed_leaf(it, T, 'int', label)
            st = Obj('Type', lazy=True, label='T:struct')
            st.fields.update({'kind': T.E['TY_STRUCT'], 'size': 24, 'align': 8, 'base': 0, 'is_unsigned': 0})
            n.fields['ty'] = st
            return n
        return typed_leaf(it, T, tn, label)
    for kind, (flds, pred, text) in sorted(REL.items()):
        ops = REL_TYPES + ((UNTYPED,) if kind == 'ND_COMMA' else ())
        for a in ops:
            for b in ops:
                if kind == 'ND_ASSIGN' and ('void' in (a, b) or (('struct' in (a, b)) and a != b)):
                    continue        # not an assignment of C (constraint violation)
                if kind == 'ND_COND' and ('struct' in (a, b)) and a != b and 'void' not in (a, b):
                    continue
                it = T.interp(opaque=['error_tok'])
                if UNTYPED in (a, b):
                    it.rec_limit = 8          # add_type descends into the untyped operand
                box = {}

                def mk(ctx, kind=kind, a=a, b=b):
                    it.ctx = ctx
                    n = Obj('Node', lazy=False, label='node')
                    n.fields['kind'] = T.E[kind]
                    n.fields['tok'] = Obj('Token', lazy=True, label='tok')
                    if kind == 'ND_COND':
                        n.fields['cond'] = typed_leaf(it, T, 'int', 'cond')
                    n.fields[flds[0]] = leaf(it, a, flds[0])
                    n.fields[flds[1]] = leaf(it, b, flds[1])
                    ctx.node = n
                    return [n]
                key = 'type.c:add_type:%s(%s,%s)' % (kind, a, b)
                try:
                    allp = it.explore('add_type', mk)
                except AnalysisBroken as e:
                    rep.undecided('R20.11', key, 'add_type is not explorable here: %s' % e, where=where); continue
                outs = [(c, o) for c, o in allp if o[0] == 'ret' and not any(e[0] == 'call' and e[1] == 'error_tok' for e in c.events)]
                if not allp:
                    rep.undecided('R20.11', key, 'add_type has no path on this node', where=where); continue
                if not outs:
                    continue            # rejected by add_type: no such node reaches the code generator
                bad = None
                for c, o in outs:
                    n = c.node
                    kids = [n.fields.get(f) for f in flds]
                    kids = [it.settle(k) if isinstance(k, View) else k for k in kids]
                    cf = cls0 if UNTYPED in (a, b) else cls
                    tri = (cf(it, n.fields.get('ty')),) + tuple(cf(it, k.fields.get('ty')) if isinstance(k, Obj) else None for k in kids)
                    if None in tri:
                        bad = 'undecided'; break
                    if not pred(*tri):
                        bad = tri
                if bad == 'undecided':
                    rep.undecided('R20.11', key, 'the types after add_type are not concrete', where=where); continue
                rep.ob('R20.11', key, bad is None,
                       '%s with operands of type (%s, %s): after add_type the node is of class %s and its operands (%s, %s) of classes (%s, %s); the stack-effect rule of this kind (R20.1) is proved for: %s. '
                       'A long double operand that does not share the node\'s class is left on / missing from the x87 stack' % ((kind, a, b) + ((bad[0], flds[0], flds[1], bad[1], bad[2]) if bad else ('', '', '', '', '')) + (text,)), where=where)

    # kinds for which gen_expr leaves no value at all (R20.1 proves their arms for a node that is not long double): add_type must not make
    # them long double, or every discard of such a node pops an x87 value that was never pushed
    for kind in ('ND_NULL_EXPR', 'ND_MEMZERO'):
        key = 'type.c:add_type:%s:not-long-double' % kind
        if kind not in T.E:
            continue
        it = T.interp(opaque=['error_tok'])
        it.rec_limit = 8

        def mk0(ctx, kind=kind):
            it.ctx = ctx
            n = Obj('Node', lazy=False, label='node')
            n.fields.update({'kind': T.E[kind], 'ty': 0, 'tok': Obj('Token', lazy=True, label='tok')})
            if kind == 'ND_MEMZERO':
                v = Obj('Obj', lazy=True, label='var')
                v.fields['ty'] = T.make(it, 'ldouble')
                n.fields['var'] = v
            ctx.node = n
            return [n]
        try:
            allp = it.explore('add_type', mk0)
        except AnalysisBroken as e:
            rep.undecided('R20.11', key, 'add_type is not explorable here: %s' % e, where=where); continue
        outs = [(c, o) for c, o in allp if o[0] == 'ret']
        if not outs:
            rep.undecided('R20.11', key, 'add_type has no returning path on this node', where=where); continue
        got = {cls0(it, c.node.fields.get('ty')) for c, o in outs}
        if None in got:
            rep.undecided('R20.11', key, 'the type after add_type is not concrete', where=where); continue
        rep.ob('R20.11', key, 'ld' not in got, 'add_type makes a %s node long double, but gen_expr leaves no value for it: gen_discard (initialiser chains, expression statements) pops %%st(0) from an empty x87 stack' % kind, where=where)

    # statement expression: the node has the type of the expression of its last statement (whatever precedes it)
    for a in REL_TYPES:
        for b in (None, 'ldouble', 'int'):
            it = T.interp(opaque=['error_tok'])
            it.rec_limit = 8          # node -> statement -> expression

            def mk(ctx, a=a, b=b):
                it.ctx = ctx
                tok = Obj('Token', lazy=True, label='tok')
                n = Obj('Node', lazy=False, label='node')
                n.fields.update({'kind': T.E['ND_STMT_EXPR'], 'tok': tok})
                last = Obj('Node', lazy=False, label='last')
                last.fields.update({'kind': T.E['ND_EXPR_STMT'], 'tok': tok, 'lhs': leaf(it, a, 'last.lhs')})
                n.fields['body'] = last
                if b is not None:
                    first = Obj('Node', lazy=False, label='first')
                    first.fields.update({'kind': T.E['ND_EXPR_STMT'], 'tok': tok, 'lhs': leaf(it, b, 'first.lhs'), 'next': last})
                    n.fields['body'] = first
                ctx.node = n
                return [n]
            key = 'type.c:add_type:ND_STMT_EXPR(%s%s)' % ('' if b is None else b + ';', a)
            try:
                allp = it.explore('add_type', mk)
            except AnalysisBroken as e:
                rep.undecided('R20.11', key, 'add_type is not explorable here: %s' % e, where=where); continue
            outs = [(c, o) for c, o in allp if o[0] == 'ret' and not any(e[0] == 'call' and e[1] == 'error_tok' for e in c.events)]
            if not allp:
                rep.undecided('R20.11', key, 'add_type has no path on this node', where=where); continue
            if not outs:
                continue
            got = {cls(it, c.node.fields.get('ty')) for c, o in outs}
            want = 'ld' if a == 'ldouble' else ('void' if a == 'void' else 'other')
            if None in got:
                rep.undecided('R20.11', key, 'the type after add_type is not concrete', where=where); continue
            rep.ob('R20.11', key, got == {want}, 'a statement expression whose last statement is an expression of type %s gets a type of class %s; R20.1 is proved for a node that has the type of that expression (its value is what the body leaves)' % (a, sorted(got)), where=where)


RET_KINDS = ('TY_VOID', 'TY_BOOL', 'TY_CHAR', 'TY_SHORT', 'TY_INT', 'TY_LONG', 'TY_FLOAT', 'TY_DOUBLE', 'TY_LDOUBLE', 'TY_ENUM', 'TY_PTR', 'TY_STRUCT', 'TY_UNION')


def r_ret_buffer(P, rep):
    """the call rules (R20.5, R20.9) take from the scenario that a call node of aggregate type carries a return buffer object of that type and
    that no other call node does: everything the code generator does to make such a call leave one value (hidden pointer, copy out of the
    return registers, the pop of %st(0) for an X87-class aggregate, the address that is the value) hangs off node->ret_buffer. Here the
    parser side is decided: funcall() of parse.c is interpreted on abstract tokens (any argument list) for a callee of every return type
    kind; add_type() must leave the type of a call node at the callee's return type."""
    from ..interp import _Ref, VarPlace
    from ..lib_parse import TokenModel
    from ..lib_types import Types
    rep.rule('R20.10', 'every call node the parser builds for a callee returning a struct or a union (of any size) gets a return buffer object of exactly the call\'s type, a call of any other type gets none, and add_type keeps the type of a call at the callee\'s return type', floor=20)
    pu = P.unit('parse.c')
    E = pu.enums
    if 'funcall' not in pu.functions:
        raise AnalysisBroken('parse.c: funcall vanished')
    where = 'parse.c:%d' % pu.fn('funcall').line
    # who builds call nodes: every function that hands the enumerator ND_FUNCALL to a constructor / stores it into a kind field
    builders = set()
    for fname, fd in pu.functions.items():
        for n in fd.walk():
            if n.kind == 'DeclRefExpr' and n.ref_name == 'ND_FUNCALL':
                par = n.parent
                cmp_ = False
                while par is not None and par.kind in ('ImplicitCastExpr', 'ParenExpr', 'ConstantExpr'):
                    par = par.parent
                if par is not None and (par.kind == 'CaseStmt' or (par.kind == 'BinaryOperator' and par.opcode in ('==', '!='))):
                    cmp_ = True
                if not cmp_:
                    builders.add(fname)
    rep.ob('R20.10', 'parse.c:funcall:builds-call-nodes', 'funcall' in builders, 'funcall() no longer builds the ND_FUNCALL node itself', where=where)
    for kname in RET_KINDS:
        if kname not in E:
            raise AnalysisBroken('enumerator %s vanished' % kname)
        agg = kname in ('TY_STRUCT', 'TY_UNION')
        for size in ((0, 1, 8, 16, 17, 24, 4096) if agg else (None,)):
            tm = TokenModel(P, pu, ['funcall'], extra_opaque=['assign', 'add_type', 'new_cast', 'new_lvar', 'copy_type'], loop_limit=1)
            it = tm.interp()

            def mk(ctx, kname=kname, size=size):
                fn = Obj('Node', lazy=True, label='fn')
                fty = Obj('Type', lazy=True, label='fty')
                fty.fields['kind'] = E['TY_FUNC']
                rt = Obj('Type', lazy=True, label='rty')
                rt.fields['kind'] = E[kname]
                if size is not None:
                    rt.fields['size'] = size
                fty.fields['return_ty'] = rt
                ctx.rty = rt
                if ctx.choose(2, 'callee designated directly / through a pointer to function') == 0:
                    fn.fields['ty'] = fty
                else:
                    pt = Obj('Type', lazy=True, label='pty')
                    pt.fields['kind'] = E['TY_PTR']; pt.fields['base'] = fty
                    fn.fields['ty'] = pt
                return [_Ref(VarPlace({'rest': None}, 'rest')), tm.token('tok'), fn]
            tag = kname[3:].lower() + ('' if size is None else '/size%d' % size)
            key = 'parse.c:funcall:return-buffer/%s' % tag
            try:
                rets = [(c, o) for c, o in it.explore('funcall', mk, max_paths=4000) if o[0] == 'ret']
            except AnalysisBroken as e:
                rep.undecided('R20.10', key, 'funcall is not explorable: %s' % e, where=where); continue
            if not rets:
                rep.undecided('R20.10', key, 'funcall has no returning path for this callee', where=where); continue
            bad = set()
            for c, o in rets:
                node = it.settle(o[1]) if isinstance(o[1], View) else o[1]
                if not isinstance(node, Obj):
                    bad.add('the result is not a node'); continue
                nty = node.fields.get('ty')
                nty = it.settle(nty) if isinstance(nty, View) else nty
                if nty is not c.rty:
                    bad.add('the call node does not get the callee\'s return type')
                rb = node.fields.get('ret_buffer')
                made = [e for e in c.events if e[0] == 'call' and e[1] == 'new_lvar' and (e[4] is rb or (isinstance(rb, View) and isinstance(e[4], View) and e[4].cell is rb.cell))]
                if agg:
                    if rb is None or rb == 0:
                        bad.add('no return buffer is created')
                    elif len(made) != 1:
                        bad.add('the return buffer is not a fresh local variable')
                    else:
                        t = made[0][2][1]
                        t = it.settle(t) if isinstance(t, View) else t
                        if t is not c.rty:
                            bad.add('the return buffer does not have the type of the call')
                elif not (rb is None or rb == 0):
                    bad.add('a return buffer is created')
            what = ('a call of a function returning a %s%s: %s. The code generator passes the hidden result pointer, copies %%rax/%%rdx/%%xmm0/%%xmm1 - or pops %%st(0) - into the result object '
                    'and leaves the object\'s address as the value of the call exactly when node->ret_buffer is set: without it a class X87 aggregate stays on the x87 stack at every call '
                    '(also when the value is discarded) and %%rax is not the address of the result; with it a scalar result is overwritten by an address'
                    % (kname[3:].lower(), '' if size is None else ' of size %d' % size, '; '.join(sorted(bad))))
            rep.ob('R20.10', key, not bad, what, where=where, facts={'paths': len(rets)})
    # other builders of call nodes: the node type they give must not be an aggregate (decided from the callee object they use), or they must set a buffer
    for fname in sorted(builders - {'funcall'}):
        key = 'parse.c:%s:call-node-type' % fname
        w2 = 'parse.c:%d' % pu.fn(fname).line
        ok = _builder_ok(P, pu, fname)
        if ok is None:
            rep.undecided('R20.10', key, '%s builds ND_FUNCALL nodes; whether their type can be an aggregate without a return buffer could not be decided' % fname, where=w2)
        else:
            rep.ob('R20.10', key, ok, '%s builds a call node whose type is a struct or union but sets no return buffer' % fname, where=w2)
    # add_type on a call node
    T = Types(P)
    w3 = 'type.c:%d' % T.tu.fn('add_type').line
    for kname in RET_KINDS:
        it = T.interp(opaque=['error_tok'])

        def mk2(ctx, kname=kname):
            it.ctx = ctx
            n = Obj('Node', lazy=False, label='node')
            n.fields['kind'] = T.E['ND_FUNCALL']
            n.fields['tok'] = Obj('Token', lazy=True, label='tok')
            rt = Obj('Type', lazy=True, label='rty'); rt.fields['kind'] = T.E[kname]
            fty = Obj('Type', lazy=True, label='fty'); fty.fields['kind'] = T.E['TY_FUNC']; fty.fields['return_ty'] = rt
            n.fields['func_ty'] = fty
            n.fields['lhs'] = Obj('Node', lazy=True, label='fn')
            n.fields['args'] = 0
            if ctx.choose(2, 'call node typed by the parser / not yet typed') == 0:
                n.fields['ty'] = rt
            else:
                n.fields['ty'] = 0
            rb = Obj('Obj', lazy=True, label='retbuf')
            n.fields['ret_buffer'] = rb if kname in ('TY_STRUCT', 'TY_UNION') else 0
            ctx.rty = rt; ctx.node = n; ctx.rb = n.fields['ret_buffer']
            return [n]
        key = 'type.c:add_type:ND_FUNCALL/%s' % kname[3:].lower()
        try:
            outs = [(c, o) for c, o in it.explore('add_type', mk2) if o[0] == 'ret']
        except AnalysisBroken as e:
            rep.undecided('R20.10', key, 'add_type is not explorable on a call node: %s' % e, where=w3); continue
        if not outs:
            rep.undecided('R20.10', key, 'add_type has no returning path on a call node', where=w3); continue
        bad = set()
        for c, o in outs:
            t = c.node.fields.get('ty')
            t = it.settle(t) if isinstance(t, View) else t
            if t is not c.rty:
                bad.add('the type of the call node becomes %r' % (getattr(t, 'label', t),))
            if c.node.fields.get('ret_buffer') is not c.rb:
                bad.add('the return buffer is replaced')
        rep.ob('R20.10', key, not bad, 'add_type on a call of a function returning %s: %s; the code generator decides from node->ty (with node->ret_buffer) how the result is received' % (kname[3:].lower(), '; '.join(sorted(bad))), where=w3)


def _builder_ok(P, pu, fname):
    """a function other than funcall that builds a call node: interpret it with the parser's builtin callee objects as declare_builtin_functions
    leaves them; True when on every returning path the node built has a non-aggregate type or a return buffer, None when not decidable"""
    from ..interp import Interp, Unsupported
    E = pu.enums
    try:
        def h_gvar(it, ctx, n, a):
            o = Obj('Obj', lazy=True, label='gvar:%s' % (a[0],))
            o.fields['name'] = a[0]; o.fields['ty'] = a[1]
            return o
        it0 = Interp(P, pu, {'cut': {'new_gvar': h_gvar}})
        if 'declare_builtin_functions' not in pu.functions:
            return None
        r0 = [(c, o) for c, o in it0.explore('declare_builtin_functions', lambda ctx: []) if o[0] == 'ret']
        if len(r0) != 1:
            return None
        g = {k: v for k, v in r0[0][0].globals.items() if isinstance(v, Obj) and (v.label or '').startswith('gvar:')}
        it = Interp(P, pu, {'globals': g, 'opaque': ['add_type', 'new_lvar']})
        nparam = len(pu.params(fname) or [])
        ptypes = [(p.type or '') for p in pu.params(fname)]

        def mk(ctx):
            out = []
            for i, t in enumerate(ptypes):
                tt = t.replace(' ', '')
                if tt == 'Node*':
                    out.append(Obj('Node', lazy=True, label='arg%d' % i))
                elif tt == 'Token*':
                    out.append(Obj('Token', lazy=True, label='tok%d' % i))
                else:
                    raise Unsupported('parameter type ' + t)
            return out
        rets = [(c, o) for c, o in it.explore(fname, mk, max_paths=500) if o[0] == 'ret']
        if not rets:
            return None
        for c, o in rets:
            node = it.settle(o[1]) if isinstance(o[1], View) else o[1]
            if not isinstance(node, Obj) or node.fields.get('kind') != E['ND_FUNCALL']:
                return None
            t = node.fields.get('ty')
            t = it.settle(t) if isinstance(t, View) else t
            k = t.fields.get('kind') if isinstance(t, Obj) else None
            if not isinstance(k, int):
                return None
            rb = node.fields.get('ret_buffer')
            if k in (E['TY_STRUCT'], E['TY_UNION']) and (rb is None or rb == 0):
                return False
        return True
    except (AnalysisBroken, Unsupported):
        return None


def _call(cg, B, rep, types, ret, depth0, entry, where, rule='R20.5'):
    from .c06 import run_caller
    from ..x86 import Unknown
    key = '%s:ND_FUNCALL:(%s)->%s/depth%d' % (U, ','.join(types), ret, depth0)
    if entry != 'gen_expr':
        key += '/discarded'
    try:
        ctx, tr, s = run_caller(cg, B, types, ret, depth0, entry=entry)
    except Unknown as e:
        # the term machine starts with nothing pushed and nothing on the x87 stack: running out of either means that the sequence emitted
        # for the call takes off more than it put on (a definite imbalance, not a limit of the analysis)
        m = str(e)
        if 'x87 pop from empty abstract stack' in m:
            rep.ob(rule, key + ':x87', False, 'the sequence emitted for the call pops an x87 value that was never pushed (the x87 stack underflows)', where=where)
        elif 'pop from an empty abstract stack' in m or 'beyond the abstract stack' in m:
            rep.ob(rule, key, False, 'the sequence emitted for the call takes more off the machine stack than it pushed for it (%s): the pops and the release after the call do not match what was pushed for the arguments, %%rsp ends above its value before the call' % m, where=where)
        else:
            rep.undecided(rule, key, m, where=where)
        return
    tmap = {'a%d' % i: t for i, t in enumerate(types)}
    _depth_vs_rsp(entry, 'ND_FUNCALL', ctx, tr, linearise(tr), depth0,
                  labfn=lambda l: 'the-callee' if l == 'fn' else ('an-argument-of-type-' + tmap[l] if l in tmap else l))
    dd = ctx.globals.get('depth')
    ok = len(s.stack) == 0 and dd == depth0
    rep.ob(rule, key, ok, 'after the call %d pushed slot(s) are still on the stack and `depth` is %r (was %d): each evaluation of this call leaks stack' % (len(s.stack), dd, depth0), where=where, facts={'trace': tr.text()[-12:]})
    want87 = 1 if (ret == 'ldouble' and entry == 'gen_expr') else 0
    # x87: a long double / class X87 result is left in st0 by the callee (('retst', n) in the machine); every argument must have been popped,
    # and the result must be gone unless it is the value of the expression
    left = [x for x in s.st if not (isinstance(x, tuple) and x[0] == 'retst')]
    nres = len(s.st) - len(left)
    rep.ob(rule, key + ':x87', not left and nres == want87, 'after the call %d long double argument value(s) are still on the x87 stack and %d result value(s) (expected %d)' % (len(left), nres, want87), where=where)


# every scalar type class the call arm can tell apart by node->ty (kind and signedness): each may be an exit of its own from the arm
SCALAR_RETS = ('bool', 'char', 'uchar', 'short', 'ushort', 'int', 'uint', 'long', 'ulong', 'enum', 'ptr', 'float', 'double', 'ldouble')
# argument lists with something passed in memory for each reason there is (register exhaustion GP / SSE, class X87, class MEMORY), with an
# odd and an even number of slots, and one without
MEM_SIGS = (['long'] * 7, ['long'] * 8, ['double'] * 9, ['ldouble'], ['long'] * 6 + ['s_l3'], ['int'])


class _scalars:
    """scalar type names of lib_types this module uses as return types in addition to the ABI vocabulary (inside a `with` block only)"""
    EXTRA = {'ushort': 2, 'enum': 4}

    def __enter__(self):
        from ..lib_abi import SCALARS
        self.added = [k for k in self.EXTRA if k not in SCALARS]
        for k in self.added:
            SCALARS[k] = self.EXTRA[k]
        return self

    def __exit__(self, *a):
        from ..lib_abi import SCALARS
        for k in self.added:
            SCALARS.pop(k, None)
        return False


def _r_call_exits(cg, B, rep, where):
    """R20.5 runs the call sequence for a few result types. The call arm of gen_expr branches on the type of the RESULT after the call instruction
    (narrow results are normalised, aggregates copied) and each branch may leave the arm on its own: what was pushed for the call has to be
    released on every one of them. The emitted sequence is followed to the end of the arm for every scalar result type class crossed with
    every reason an argument is passed in memory, at both parities of `depth`; `depth` alone cannot show a missing release (the arm
    decrements it separately from emitting the instruction)."""
    rep.rule('R20.17', 'the call arm releases everything it pushed (memory arguments, alignment padding) on EVERY exit it has: for every scalar type class of the result (bool, signed/unsigned char, short, int, long, enum, pointer, float, double, long double) crossed with every kind of memory-passed argument list and both stack parities, the emitted sequence followed to the end of the arm leaves %rsp where it was before the call and `depth` at its old value', floor=150)
    with _scalars():
        for ret in SCALAR_RETS:
            for types in MEM_SIGS:
                for depth0 in (0, 1):
                    if ret in ('int', 'ldouble') and types in (['long'] * 7, ['long'] * 8, ['double'] * 9, ['ldouble'], ['int']):
                        continue        # R20.5 has these
                    _call(cg, B, rep, types, ret, depth0, 'gen_expr', where, rule='R20.17')



def expr_kinds_handled(cg, fname='gen_expr'):
    """node kinds for which gen_expr (or gen_addr) has a case label (recovered from its switches)"""
    ks = set()
    fn = cg.cu.fn(fname)
    val2name = {cg.E[k]: k for k in cg.node_kinds}
    for n in fn.walk():
        if n.kind == 'CaseStmt':
            try:
                v = None
                for x in n.inner[0].walk():
                    if x.kind == 'ConstantExpr' and x.value is not None:
                        v = int(x.value); break
                if v is None:
                    v = n.inner[0].int_value()
            except Exception:
                v = None
            sw = n.enclosing('SwitchStmt')
            if sw is not None and 'kind' in sw.inner[0].src() and 'ty' not in sw.inner[0].src() and v in val2name:
                ks.add(val2name[v])
    return ks


def preset_stmt(cg, kind):
    SCALAR = INT_CATS + ('float', 'double', 'ldouble', 'ptr')
    def mk(ctx):
        n = cg.node('node', kind)
        if kind == 'ND_SWITCH':
            n.fields['cond'] = cg.node('cond', ty=cg.tcell('cond.ty', only=INT_CATS))
        elif kind in ('ND_IF', 'ND_FOR', 'ND_DO'):
            pass   # condition: any scalar type, created lazily
        elif kind == 'ND_GOTO_EXPR':
            n.fields['lhs'] = cg.node('lhs', ty=cg.tcell('lhs.ty', only=('ptr',)))
        elif kind == 'ND_RETURN':
            # the operand has the function's return type (R20.16 decides that on the parser); aggregates with a few concrete sizes
            t = cg.tcell('lhs.ty', only=SCALAR + ('void', 'struct', 'union'), agg_sizes=(4, 8, 12, 16, 24))     # void: `return e;` in a void function (e converted to void)
            lhs = cg.node('lhs', ty=t)
            from ..interp import Cell
            n.fields['lhs'] = View(Cell([0, lhs], 'node.lhs'))
            fty = Obj('Type', lazy=True, label='fnty'); fty.fields['return_ty'] = t
            hp = Obj('Obj', lazy=True, label='hidden-param'); hp.fields['offset'] = Sym('hidden.offset', 'int')
            fn = Obj('Obj', lazy=True, label='current_fn'); fn.fields['ty'] = fty; fn.fields['params'] = hp; fn.fields['name'] = 'f'
            ctx.globals['current_fn'] = fn
        return n
    return mk


# ------------------------------------------------------------------------------------------------ R20.13: the value that is left ---
VALUE_CATS = ('bool', 'char', 'uchar', 'short', 'ushort', 'int', 'uint', 'long', 'ulong', 'enum', 'ptr', 'float', 'double', 'ldouble', 'struct', 'union')


class _flag_machine:
    """the shared term machine does not model the flags of inc/dec (the unchanged tree emits no branch on them); a run-time loop counted
    by `dec; jne` needs them. Inside the `with` block lib_sem.run_paths uses a machine that sets them (Intel SDM: inc/dec set ZF/SF
    from the result)."""
    def __enter__(self):
        from .. import lib_sem
        from ..x86 import Machine

        class VM(Machine):
            def i_inc(self, s, ops, mn='inc'):
                Machine.i_inc(self, s, ops, mn)
                w = self.opw(mn, 'inc', ops)
                s.flags = ('res', w, self.val(s, ops[0], w))

            def i_dec(self, s, ops, mn='dec'):
                Machine.i_dec(self, s, ops, mn)
                w = self.opw(mn, 'dec', ops)
                s.flags = ('res', w, self.val(s, ops[0], w))
        self.lib, self.old = lib_sem, lib_sem.Machine
        lib_sem.Machine = VM
        return self

    def __exit__(self, *a):
        self.lib.Machine = self.old
        return False


def _linform(t):
    """64-bit term as a linear combination {atom: coefficient} + constant (add/sub chains flattened); None when t is not a tuple"""
    if not isinstance(t, tuple):
        return None
    atoms, const = {}, 0
    st = [(t, 1)]
    while st:
        x, c = st.pop()
        if isinstance(x, tuple) and x[0] == 'c':
            const += c * x[1]
        elif isinstance(x, tuple) and x[0] == 'bin' and x[1] in ('add', 'sub') and x[2] == 64:
            st.append((x[3], c)); st.append((x[4], c if x[1] == 'add' else -c))
        else:
            atoms[x] = atoms.get(x, 0) + c
    return {a: c for a, c in atoms.items() if c}, const % (1 << 64)


def _has_sym(t):
    if isinstance(t, tuple):
        return t[0] == 'immsym' or any(_has_sym(x) for x in t[1:])
    return False


def _same_value(got, want):
    """(verdict, text): True equal | False definitely another value | None cannot tell (differs by a symbolic immediate)"""
    from ..lib_sem import canon
    if got == want or canon(got) == canon(want):
        return True, ''
    lg, lw = _linform(got), _linform(want)
    if lg is None or lw is None:
        return False, 'is %r' % (got,)
    d = dict(lg[0])
    for a, c in lw[0].items():
        d[a] = d.get(a, 0) - c
    d = {a: c for a, c in d.items() if c}
    k = (lg[1] - lw[1]) % (1 << 64)
    if not d:
        if k == 0:
            return True, ''
        return False, 'is that value %+d' % (k if k < (1 << 63) else k - (1 << 64))
    if all(_has_sym(a) for a in d):
        return None, 'differs from it by a quantity that depends on a symbolic immediate (%r)' % (sorted(d, key=repr)[:2],)
    return False, 'is %r' % (got,)


def _value_preset(cg, kind, cat):
    """abstract node of a value-forwarding kind whose designated operand has type class `cat`"""
    def mk(ctx):
        n = cg.node('node', kind)
        t = cg.tcell('ty', only=(cat,))
        n.fields['ty'] = t
        if kind == 'ND_ASSIGN':
            n.fields['lhs'] = cg.node('lhs', ty=t, kind='ND_VAR')      # a plain object; bit-field members: C04 R04.2
            n.fields['rhs'] = cg.node('rhs', ty=t)
        elif kind == 'ND_COMMA':
            n.fields['lhs'] = cg.node('lhs', ty=cg.tcell('lty', only=('int',)))
            n.fields['rhs'] = cg.node('rhs', ty=t)
        elif kind == 'ND_COND':
            n.fields['cond'] = cg.node('cond', ty=cg.tcell('cty', only=('int',)))
            n.fields['then'] = cg.node('then', ty=t)
            n.fields['els'] = cg.node('els', ty=t)
        elif kind == 'ND_STMT_EXPR':
            last = cg.node('last', 'ND_EXPR_STMT', lhs=cg.node('last.lhs', ty=t), next=0)
            n.fields['body'] = cg.node('first', next=last) if ctx.choose(2, 'statement expression with one / several statements') else last
        return n
    return mk


# kind -> (labels of the operands whose value is the value of the node, what C11/GNU C prescribe)
VALUE_OF = {
    'ND_ASSIGN': (('rhs',), 'the value of an assignment expression is the value stored (C11 6.5.16p3); for a struct or union the address of an object holding it'),
    'ND_COMMA': (('rhs',), 'the value of a comma expression is the value of its right operand (C11 6.5.17p2)'),
    'ND_COND': (('then', 'els'), 'the value of a conditional expression is the value of the operand that was evaluated (C11 6.5.15p4)'),
    'ND_STMT_EXPR': (('last.lhs', 'last'), 'the value of a statement expression is the value of its last expression statement'),
}


def r_value(cg, rep):
    """R20.1 counts what an arm leaves on the two stacks; this rule decides WHICH value it leaves. For the kinds whose value is by definition
    the value of one of their operands, the emitted code is run on the term machine for every type class of that operand (aggregates with
    a symbolic size, so that every size class the generator distinguishes is a path): after the operand has been evaluated nothing may
    change the place its value lives in - %rax (integers, pointers, the address of an aggregate), %xmm0, %st(0)."""
    from ..lib_sem import run_paths, child_value, FP, INTSZ, canon
    from ..x86 import lo, Unknown
    rep.rule('R20.13', 'every arm of gen_expr whose value is the value of one of its operands (assignment, comma, conditional, statement expression) leaves exactly that value where the contract puts it - %rax (integer, pointer, address of the aggregate), %xmm0 (float, double), %st(0) (long double) - for every type class and every aggregate size class: the stores, copies and jumps emitted after the operand do not disturb it', floor=50)
    where = '%s:%d' % (U, cg.cu.fn('gen_expr').line)
    handled = expr_kinds_handled(cg)
    for kind in sorted(VALUE_OF):
        if kind not in handled:
            continue
        names, text = VALUE_OF[kind]
        for cat in VALUE_CATS:
            key = '%s:gen_expr:%s/%s:value' % (U, kind, cat)
            try:
                with _flag_machine():
                    pack = run_paths(cg, 'gen_expr', _value_preset(cg, kind, cat))
            except AnalysisBroken as e:
                rep.undecided('R20.13', key, 'not explorable: %s' % e, where=where); continue
            verdicts = {}       # problem tag -> (ok|None, message, facts)
            n = 0
            for ctx, tr, finals, cats, it in pack:
                if isinstance(finals, Exception):
                    verdicts.setdefault('machine', (None, 'emitted code not interpretable: %s' % finals, {'trace': tr.text()[-40:]}))
                    continue
                for s in finals:
                    n += 1
                    ev = [e for e in s.events if e[0] == 'eval']
                    if not ev or ev[-1][2] not in names:
                        verdicts.setdefault('operand-order', (False, 'the last operand evaluated is %s, not the operand whose value the node has (%s)' % (ev[-1][2] if ev else 'none', '/'.join(names)), {'trace': tr.text()[-40:]}))
                        continue
                    name, pk = ev[-1][2], ev[-1][1]
                    facts = {'trace': tr.text()[-40:], 'path_condition': [repr(c) for c in s.cond][:6]}
                    if pk == 'stmt':
                        v, why = _same_value(s.reg['rax'], ('clobber', 'rax', name))
                        x0 = s.xmm.get(0)
                        if v and not (x0 is None or x0 == ('clobber', 'xmm0', name)):
                            v, why = False, '(%%xmm0) is %r' % (x0,)
                        if v and s.st:
                            v, why = False, 'has %d more value(s) on the x87 stack' % len(s.st)
                        place = 'what the last statement left in %rax/%xmm0/%st(0)'
                    else:
                        c = cats.get(name, cat)
                        loc, term = child_value(name, c)
                        if loc == 'rax':
                            w = 64 if (c not in INTSZ or INTSZ[c] == 8) else 32
                            v, why = _same_value(lo(w, s.reg['rax']), lo(w, term))
                            place = '%rax'
                        elif loc == 'xmm0':
                            got = s.xmm.get(0)
                            v, why = (got == term), 'is %r' % (got,)
                            place = '%xmm0'
                        else:
                            v, why = (s.st == [term]), 'x87 stack is %r' % (s.st,)
                            place = '%st(0)'
                    if v is True:
                        continue
                    tag = 'value-changed' if v is False else 'value-unknown'
                    verdicts.setdefault(tag, (v, 'after the operand `%s` was evaluated the emitted code changes %s: at the end of the arm it %s instead of the value of `%s`' % (name, place, why, name), facts))
            if n == 0 and not verdicts:
                rep.undecided('R20.13', key, 'no returning path / no emitted code for this kind and type class', where=where); continue
            bad = {t: v for t, v in verdicts.items() if v[0] is False}
            unk = {t: v for t, v in verdicts.items() if v[0] is None}
            if not bad and not unk:
                rep.ob('R20.13', key, True, '', where=where, facts={'final_states': n})
            for t, v in sorted(bad.items()):
                rep.ob('R20.13', key + ':' + t, False, '%s of %s: %s. %s' % (kind, cat, v[1], text), where=where, facts=v[2])
            if not bad:
                for t, v in sorted(unk.items()):
                    rep.undecided('R20.13', key + ':' + t, '%s of %s: %s' % (kind, cat, v[1]), where=where)
    # lvalues of aggregate type: the value of the expression is the address of the object, i.e. what gen_addr leaves for the same node
    def lv_preset(kind, cat):
        def mk(ctx):
            n = cg.node('node', kind)
            t = cg.tcell('ty', only=(cat,))
            n.fields['ty'] = t
            if kind == 'ND_VAR':
                v = Obj('Obj', lazy=True, label='var')
                v.fields.update({'is_local': 1, 'offset': Sym('voff', 'int'), 'ty': t})
                n.fields['var'] = v
            elif kind == 'ND_MEMBER':
                m = Obj('Member', lazy=True, label='mem')
                m.fields.update({'offset': Sym('off', 'int'), 'ty': t, 'is_bitfield': 0})
                n.fields['member'] = m
                n.fields['lhs'] = cg.node('base')
            else:
                n.fields['lhs'] = cg.node('lhs', ty=cg.ptr_to(t, 'pty'))
            return n
        return mk
    ahandled = expr_kinds_handled(cg, 'gen_addr')
    for kind in ('ND_DEREF', 'ND_MEMBER', 'ND_VAR'):
        if kind not in handled or kind not in ahandled:
            continue
        for cat in ('array', 'struct', 'union'):
            key = '%s:gen_expr:%s/%s:value-is-the-address' % (U, kind, cat)
            res = {}
            broken = None
            for fname in ('gen_expr', 'gen_addr'):
                vals = set()
                try:
                    with _flag_machine():
                        pack = run_paths(cg, fname, lv_preset(kind, cat))
                except AnalysisBroken as e:
                    broken = str(e); break
                for ctx, tr, finals, cats, it in pack:
                    if isinstance(finals, Exception):
                        broken = 'emitted code not interpretable: %s' % finals; break
                    for s in finals:
                        vals.add((canon(s.reg['rax']), len(s.stores), len(s.stack), len(s.st)))
                res[fname] = vals
            if broken or not res.get('gen_expr') or not res.get('gen_addr'):
                rep.undecided('R20.13', key, broken or 'no returning path', where=where); continue
            ok = res['gen_expr'] == res['gen_addr'] and all(v[1:] == (0, 0, 0) for v in res['gen_expr'])
            rep.ob('R20.13', key, ok, 'the value of an lvalue of %s type (%s) is the address of the object: gen_expr leaves %r in %%rax (with stores, pushed slots, x87 values), gen_addr of the same node %r' % (cat, kind, sorted(res['gen_expr'], key=repr)[:2], sorted(res['gen_addr'], key=repr)[:2]), where=where)


# ------------------------------------------------------------------------------------ R20.14: jumps that leave a statement expression ---
import re as _re
_ROOT_FIELD = _re.compile(r'^\{node\.([A-Za-z_]\w*)\}$')


def _mentions_depth(text):
    return 'depth0' in text


_ASM_SYM = _re.compile(r'^(?:[A-Za-z0-9_.$]|\{[^}]*\})+$')


def _scaled(v):
    """a left shift by / product with a constant of a linear value, as a Lin; None for anything else"""
    from ..interp import Term
    if not (isinstance(v, Term) and len(v.args) == 2):
        return None
    op = v.op.split(':')[0]
    x, y = v.args
    if op == '<<' and isinstance(y, int) and 0 <= y < 32:
        l = _as_lin(x)
        return Lin.of(l.scale(1 << y)) if l is not None else None
    if op == '*' and (isinstance(x, int) or isinstance(y, int)):
        k, o = (x, y) if isinstance(x, int) else (y, x)
        l = _as_lin(o)
        return Lin.of(l.scale(int(k))) if l is not None else None
    return None


def _as_lin(v):
    """value as a Lin over symbols, looking through `x << k` and `k * x` (`depth << 3`)"""
    l = _scaled(v)
    if l is not None:
        return l
    l = Lin.of(v)
    if l is None:
        return None
    out = Lin(l.c, {})
    for k, (co, leaf) in l.terms.items():
        sub = _scaled(leaf)
        out = Lin.of(out.add(Lin.of(sub.scale(co)) if sub is not None else Lin(0, {k: (co, leaf)})))
    return out


def _linear_operand(op, syms):
    """immediate operand `$<sum of terms>` of an emitted instruction -> (coefficient of the entry value of `depth`, constant, {assembler symbol: coefficient}),
    None when it is not such a sum. A rendered symbolic argument (`{...}`) is looked up in the trace's symbol table and has to be linear in `depth`."""
    s = op.strip()
    if not s.startswith('$'):
        return None
    s = s[1:]
    terms, cur, sign, lvl = [], '', 1, 0
    for ch in s:
        if ch == '{':
            lvl += 1
        elif ch == '}':
            lvl -= 1
        if ch in '+-' and lvl == 0:
            if cur.strip():
                terms.append((sign, cur.strip()))
                cur, sign = '', 1
            if ch == '-':
                sign = -sign
            continue
        cur += ch
    if cur.strip():
        terms.append((sign, cur.strip()))
    if not terms:
        return None
    dkey = Sym('depth0', 'int').key()
    b, c, atoms = 0, 0, {}
    for sg, t in terms:
        if _re.match(r'^\d+$', t):
            c += sg * int(t)
        elif t in syms:
            l = _as_lin(syms[t])
            if l is None:
                return None
            c += sg * l.c
            for k, (co, leaf) in l.terms.items():
                if k != dkey:
                    return None
                b += sg * co
        elif _ASM_SYM.match(t) and not _re.match(r'^\d', t):
            atoms[t] = atoms.get(t, 0) + sg
        else:
            return None
    return b, c, {k: v for k, v in atoms.items() if v}


def _nonlocal_exits(ctx, tr, nodes, kind):
    """one path of a gen_stmt arm: classify every jump whose target the arm does not define itself and record whether what the enclosing
    expressions have pushed (`depth` slots; the arm is explored at a symbolic depth) is released before it. Returns the nodes without the
    release instruction: it is not part of the arm's own balance (R20.2 / R20.3), it belongs to the jump."""
    from ..chibi import parse_ins, JCC
    defined = {n[1] for n in nodes if n[0] == 'label'}
    d0 = ctx.bounds.get(Sym('depth0', 'int').key())
    depth_is_zero = bool(d0) and list(d0) == [0, 0]
    out = list(nodes)
    # label definitions by a field of the node, and the assembler symbols set in the same arm
    sets = {}
    for n in nodes:
        if n[0] == 'ins':
            m = _re.match(r'^\.set\s+([^,]+),\s*(.+)$', n[1].strip())
            if m:
                sets[m.group(1).strip()] = m.group(2).strip()
    for n in nodes:
        if n[0] == 'label':
            m = _ROOT_FIELD.match(n[1])
            if m:
                _label_defs.setdefault((kind, m.group(1)), []).append({'label': n[1], 'sets': dict(sets), 'syms': dict(tr.syms), 'trace': tr.text()[-14:]})
    for i, n in enumerate(nodes):
        if n[0] != 'ins':
            continue
        ins = parse_ins(n[1])
        if ins is None or not (ins[0] == 'jmp' or ins[0] in JCC) or not ins[1]:
            continue
        t = ins[1][0]
        if t in defined or _re.match(r'^\d+[fb]$', t):
            continue
        if t.startswith('*'):
            cls, fld = 'indirect', 'computed'
        elif t.startswith('.L.return'):
            cls, fld = 'epilogue', 'return'
        else:
            m = _ROOT_FIELD.match(t)
            if m:
                cls, fld = 'named', m.group(1)       # the node only names its target: any statement of the function
            else:
                cls, fld = 'descendant', _re.sub(r'[^A-Za-z_.]', '', t).replace('node.', '')
        verdict, msg = True, ''
        if cls in ('named', 'indirect'):
            rel = None
            for j in range(i - 1, -1, -1):
                if nodes[j][0] != 'ins':
                    continue
                r, x, known = stack_effect(nodes[j][1])
                if isinstance(r, tuple):
                    rel = (j, r, nodes[j][1]); break
            if rel is not None and rel[1][0] == 'sym' and rel[1][1][:3] in ('add', 'sub') and _mentions_depth(rel[1][2]):
                out[rel[0]] = ('ins', '')
                # the release moves %rsp up by b*depth + a*S + c bytes (depth: slots pushed at the jump, S: an assembler symbol of the target
                # label, defined where the label is generated). It has to be 8*depth - 8*depth(target) for every pair of depths: b = 8 is a
                # fact of the jump alone; a and c are judged together with what the label arms store in S (r_nonlocal_exits)
                form = _linear_operand(rel[1][2], tr.syms)
                shown = rel[2].strip()
                if form is not None and rel[1][1].startswith('sub'):
                    form = (-form[0], -form[1], {k: -v for k, v in form[2].items()})
                if form is None:
                    verdict, msg = None, 'the release `%s` before the jump is not a sum of multiples of `depth`, constants and assembler symbols; whether it brings %%rsp to the level of the target cannot be decided' % shown
                else:
                    b, c, atoms = form
                    mine = [k for k in atoms if cls == 'named' and t in k]
                    if b == -8:
                        verdict, msg = False, ('the release `%s` before the jump moves %%rsp DOWN by the 8*depth bytes the enclosing expressions have pushed (the sign of the amount is inverted): '
                                               'instead of being released, the pending bytes are allocated once more' % shown)
                    elif b != 8:
                        verdict, msg = False, 'the release `%s` before the jump counts %d bytes per pushed slot; a slot of `depth` is 8 bytes (R20.3)' % (shown, b)
                    elif len(atoms) == 1 and len(mine) == 1:
                        verdict, msg = True, ('symbol', mine[0].replace(t, '<label>'), atoms[mine[0]], c)
                    elif not atoms:
                        verdict, msg = False, ('the release `%s` before the jump gives back everything the enclosing expressions have pushed, also what was pushed before the statement expression that contains the target '
                                               '(nothing of the target label enters the amount)' % shown)
                    else:
                        verdict, msg = None, 'the release `%s` before the jump does not subtract one symbol of the target label; whether it brings %%rsp to the level of the target cannot be decided' % shown
            elif rel is not None:
                verdict, msg = None, '%%rsp is changed by `%s` before the jump; whether this is the level of the target cannot be decided' % rel[2]
            elif depth_is_zero:
                verdict, msg = True, ''
            else:
                verdict, msg = False, ('`%s` is emitted without releasing what the enclosing expressions have pushed (the arm never looks at `depth`): a statement inside a statement expression is generated while '
                                       'the operands of the enclosing expression are on the stack' % n[1].strip())
        cur = _exits.get((kind, cls, fld))
        rank = {True: 0, None: 1, False: 2}
        if cur is None or rank[verdict] > rank[cur[0]] or (verdict is True and isinstance(msg, tuple)):
            _exits[(kind, cls, fld)] = [verdict, msg, tr.text()[-14:]]
    return [n for n in out if not (n[0] == 'ins' and n[1] == '')]


def _epilogue_restores_rsp(cg):
    """the text printed right after the `.L.return.<fn>:` label resets %rsp from the frame pointer (so a `return` may leave with anything pushed)"""
    for fname, fd in cg.cu.functions.items():
        fmts = []
        for c in fd.walk():
            if c.kind == 'CallExpr' and c.callee() == 'println' and c.args():
                try:
                    fmts.append(c.args()[0].str_value())
                except Exception:
                    fmts.append(None)
        for i, f in enumerate(fmts):
            if isinstance(f, str) and f.startswith('.L.return.') and f.rstrip().endswith(':'):
                nxt = fmts[i + 1] if i + 1 < len(fmts) else None
                return isinstance(nxt, str) and _re.sub(r'\s+', ' ', nxt.strip()) == 'mov %%rbp, %%rsp', fname
    return None, None


def r_nonlocal_exits(cg, rep):
    """R20.1/R20.2 are contracts of arms that are left by falling through. A statement inside a statement expression is generated while the
    enclosing expression may hold pushed operands (`1 + ({ if (c) continue; 2; })`, pushed call arguments, a spilled long double); a jump that
    leaves it - break, continue, goto, computed goto, return - skips the pops of the enclosing expression, so the jump itself must bring
    %rsp to the level of its target. gen_stmt is explored at a symbolic `depth`, so an arm that does not look at `depth` cannot do that."""
    rep.rule('R20.14', 'a jump that leaves a statement (break/continue/goto, computed goto, return) is generated correctly at every `depth`: it releases the bytes the enclosing expressions have pushed beyond the level of its target (statements occur inside statement expressions that are operands of unfinished expressions), or its target resets %rsp from the frame; otherwise every such jump in a loop leaks stack', floor=4)
    fn = cg.cu.fn('gen_stmt')
    where = '%s:%d' % (U, fn.line)
    moot = not _stmt_in_expr
    schemes = set()
    for (kind, cls, fld), (verdict, msg, trace) in sorted(_exits.items()):
        base = '%s:gen_stmt:%s:' % (U, kind)
        if cls == 'descendant':
            # the target is a statement linked from this node (case labels of a switch): part of this statement, generated at the same depth
            rep.ob('R20.14', base + 'jump-to-%s:target-inside-this-statement' % fld, True, '', where=where)
            continue
        if cls == 'epilogue':
            ok, fname = _epilogue_restores_rsp(cg)
            key = base + 'jump-to-epilogue:epilogue-resets-rsp-from-frame'
            if ok is None:
                rep.undecided('R20.14', key, 'the code printed after the .L.return label was not found', where=where)
            else:
                rep.ob('R20.14', key, ok or moot, 'a return jumps to the epilogue with operands of enclosing expressions still pushed, but the code after `.L.return.<fn>:` (in %s) does not start with `mov %%rbp, %%rsp`' % fname, where=where)
            continue
        key = base + ('jump-to-%s' % fld if cls == 'named' else 'indirect-jump') + ':releases-pushed-operands'
        if verdict is False and isinstance(msg, str) and msg.startswith('the release '):
            key += ':direction' if 'moves %rsp DOWN' in msg else (':bytes-per-slot' if 'bytes per pushed slot' in msg else ':amount')
        if isinstance(msg, tuple):
            schemes.add(msg[1:]); msg = ''
        if verdict is None and not moot:
            rep.undecided('R20.14', key, msg, where=where)
        else:
            rep.ob('R20.14', key, bool(verdict) or moot,
                   '%s of gen_stmt: %s. Each execution leaves 8 bytes per pushed operand (24 for a spilled long double) on the stack: `for (...) x = 1 + ({ if (c) continue; 2; });` overflows the stack' % (kind, msg),
                   where=where, facts={'trace': trace, 'statements_generated_by_expression_kinds': sorted(_stmt_in_expr)})
    # when jumps subtract a symbol of the target label, every arm that defines a label a node can name must set that symbol to 8*depth
    linked = {fld.split('.')[-1] for (kind, cls, fld) in _exits if cls == 'descendant'}     # labels reached through a link from the jumping node (case labels): never named by a goto
    for scheme, a, c in sorted(schemes):
        for (kind, fld), defs in sorted(_label_defs.items()):
            if fld in linked:
                continue
            key = '%s:gen_stmt:%s:label-%s:records-its-depth' % (U, kind, fld)
            bad = None
            und = None
            for d in defs:
                sym = scheme.replace('<label>', d['label'])
                v = d['sets'].get(sym)
                # the jump releases 8*depth(jump) + a*S + c: S = p*depth(label) + q must make that 8*depth(jump) - 8*depth(label)
                form = _linear_operand('$' + v, d.get('syms', {})) if v is not None else None
                if v is not None and (form is None or form[2]):
                    und = (sym, v)
                elif v is None or a * form[0] != -8 or a * form[1] + c != 0:
                    bad = (sym, v, d['trace'])
            if und and not bad:
                rep.undecided('R20.14', key, 'the value `%s` stored in %s is not a multiple of `depth` plus a constant' % (und[1], und[0]), where=where)
                continue
            rep.ob('R20.14', key, bad is None, 'jumps release `8*depth %+d*%s %+d`, but %s of gen_stmt defines the label `%s` %s: the jump releases the wrong number of bytes (or the output does not assemble)'
                   % (a, scheme, c, kind, fld, ('without setting that symbol before the label' if bad and bad[1] is None else 'with the symbol set to %s (it has to be %+d*depth %+d)' % (bad[1] if bad else '', -8 // a if a and 8 % abs(a) == 0 else 0, 0))), where=where,
                   facts={'trace': bad[2] if bad else []})
