"""Symbolic (term-level) evaluator for the x86-64 templates chibicc emits.

Not a solver and not an emulator: registers hold *terms* over named unknowns
("the value the child expression left in %rax"), instructions build bigger
terms, a normaliser folds width conversions.  Rules compare the final term
with the term C11 prescribes for the node kind and type.  An instruction the
table does not know makes the evaluation `Unknown` (=> undecided, never a
violation).

Instruction semantics are from the Intel SDM; AT&T operand order; the GNU as
quirk for fsub(r)p/fdiv(r)p without operands was confirmed against the
assembler: with st0=a, st1=b:  fsubrp -> b-a, fsubp -> a-b, fdivrp -> b/a,
fdivp -> a/b;  fcomip/fucomip compare st0 (as dst) with st1;  ucomis* SRC,DST
compares DST with SRC.
"""
import re
from .chibi import parse_ins


class Unknown(Exception):
    pass


# ------------------------------------------------------------------ terms ---
def C(n):
    return ('c', n)


def width(t):
    k = t[0]
    if k == 'c':
        return None
    if k in ('r',):
        return t[2]
    if k in ('lo',):
        return t[1]
    if k in ('zx', 'sx'):
        return t[2]
    if k in ('bin', 'un'):
        return t[2]
    if k in ('cmp', 'fcc', 'feq', 'fne', 'flt', 'fle', 'fgt', 'fge', 'bool', 'cas_ok', 'cas_failed'):
        return 8
    if k in ('mem', 'signof', 'baddiv', 'junk', 'fp2int', 'observed', 'casax'):
        return t[1]
    if k in ('init', 'clobber', 'ret'):
        return 64
    if k == 'ins':
        return 64
    if k == 'hig':
        return 64
    if k in ('v', 'addrof', 'junk', 'cvt_i'):
        return t[1] if k == 'cvt_i' else 64
    if k == 'ite':
        return width(t[2])
    return None


def lo(w, t):
    """low w bits of t as a w-bit term"""
    k = t[0]
    tw = width(t)
    if k == 'c':
        return ('c', t[1] & ((1 << w) - 1))
    if k == 'immsym':
        return t          # symbolic immediate: the same constant at whatever width it is used
    if tw == w:
        return t
    if k in ('zx', 'sx'):
        _, wf, wt, x = t
        if w == wf:
            return x
        if w < wf:
            return lo(w, x)
        return ext(k, wf, w, x)
    if k == 'hig':          # 32 valid low bits, garbage above
        if w <= 32:
            return lo(w, t[1])
        return t
    if k == 'ins':          # low `t[1]` bits replaced
        _, iw, old, new = t
        if w <= iw:
            return lo(w, new)
        return ('lo', w, t)
    if k == 'bin' and t[1] in ('add', 'sub', 'mul', 'and', 'or', 'xor', 'shl') and tw and w < tw:
        if t[1] == 'shl':
            return norm_bin('shl', w, lo(w, t[3]), t[4])
        return norm_bin(t[1], w, lo(w, t[3]), lo(w, t[4]))
    if k == 'un' and t[1] in ('neg', 'not') and tw and w < tw:
        return ('un', t[1], w, lo(w, t[3]))
    if k == 'lo':
        return lo(w, t[2]) if w <= t[1] else ('lo', w, t)
    if k == 'ite':
        return ('ite', t[1], lo(w, t[2]), lo(w, t[3]))
    return ('lo', w, t)


def ext(kind, wf, wt, x):
    """extend the wf-bit term x to wt bits (kind = 'zx' | 'sx')"""
    if wf == wt:
        return x
    if x[0] == 'c':
        v = x[1] & ((1 << wf) - 1)
        if kind == 'sx' and v >> (wf - 1):
            v -= 1 << wf
        return ('c', v & ((1 << wt) - 1))
    if x[0] in ('zx', 'sx'):
        _, a, b, y = x       # y: a bits -> b (= wf) bits
        if x[0] == 'zx':
            return ('zx', a, wt, y)          # zero-extended value stays non-negative
        if x[0] == 'sx' and kind == 'sx':
            return ('sx', a, wt, y)
    if x[0] in ('cmp', 'feq', 'fne', 'flt', 'fle', 'fgt', 'fge', 'bool') and kind == 'sx' and wf >= 8:
        kind = 'zx'      # 0/1 values
    return (kind, wf, wt, x)


COMM = ('add', 'mul', 'and', 'or', 'xor')


def norm_bin(op, w, a, b):
    if op in COMM and repr(a) > repr(b):
        a, b = b, a
    if a[0] == 'c' and b[0] == 'c':
        m = (1 << w) - 1
        x, y = a[1], b[1]
        if op == 'add': return ('c', (x + y) & m)
        if op == 'sub': return ('c', (x - y) & m)
        if op == 'mul': return ('c', (x * y) & m)
        if op == 'and': return ('c', x & y)
        if op == 'or': return ('c', x | y)
        if op == 'xor': return ('c', x ^ y)
    return ('bin', op, w, a, b)


# --------------------------------------------------------------- machine ---
GPR64 = ['rax', 'rbx', 'rcx', 'rdx', 'rsi', 'rdi', 'rbp', 'rsp', 'r8', 'r9', 'r10', 'r11', 'r12', 'r13', 'r14', 'r15']
SUB = {}
for r in ['ax', 'bx', 'cx', 'dx', 'si', 'di', 'bp', 'sp']:
    SUB['r' + r] = ('r' + r, 64); SUB['e' + r] = ('r' + r, 32); SUB[r] = ('r' + r, 16)
for r, l in [('ax', 'al'), ('bx', 'bl'), ('cx', 'cl'), ('dx', 'dl'), ('si', 'sil'), ('di', 'dil')]:
    SUB[l] = ('r' + r, 8)
for i in range(8, 16):
    SUB['r%d' % i] = ('r%d' % i, 64); SUB['r%dd' % i] = ('r%d' % i, 32); SUB['r%dw' % i] = ('r%d' % i, 16); SUB['r%db' % i] = ('r%d' % i, 8)
HIGH8 = {'ah': 'rax', 'bh': 'rbx', 'ch': 'rcx', 'dh': 'rdx'}

CC = {'e': 'eq', 'z': 'eq', 'ne': 'ne', 'nz': 'ne', 'l': 'lt_s', 'le': 'le_s', 'g': 'gt_s', 'ge': 'ge_s',
      'b': 'lt_u', 'be': 'le_u', 'a': 'gt_u', 'ae': 'ge_u', 'p': 'p', 'np': 'np', 's': 's', 'ns': 'ns'}
SUFFIX_W = {'b': 8, 'w': 16, 'l': 32, 'q': 64}


class State:
    def __init__(self):
        self.reg = {r: ('init', r) for r in GPR64}
        self.xmm = {}
        self.st = []          # x87 stack, top last
        self.stack = []       # machine stack (pushed terms)
        self.scratch = {}     # ('rsp', off) -> (w, term)
        self.flags = None
        self.stores = []      # (addr, w, value, kind)
        self.events = []      # calls etc.
        self.cond = []        # path conditions [(term, bool)]
        self.df = None

    def copy(self):
        s = State()
        s.reg = dict(self.reg); s.xmm = dict(self.xmm); s.st = list(self.st); s.stack = list(self.stack)
        s.scratch = dict(self.scratch); s.flags = self.flags; s.stores = list(self.stores)
        s.events = list(self.events); s.cond = list(self.cond)
        return s

    # registers
    def rd(self, name, w=None):
        base, rw = SUB[name]
        return lo(rw, self.reg[base])

    def wr(self, name, t):
        base, rw = SUB[name]
        if rw == 64:
            self.reg[base] = t
        elif rw == 32:
            self.reg[base] = ext('zx', 32, 64, t)
        else:
            self.reg[base] = ('ins', rw, self.reg[base], t)


_MEM = re.compile(r'^(-?\d+|[A-Za-z_.${][\w.$@+\-{}#: ()*<>~]*?)?\((%\w+)(?:\s*,\s*(%\w+)(?:\s*,\s*(\d+))?)?\)$')


def parse_operand(o):
    """('imm', n|str) | ('reg', name) | ('xmm', n) | ('st', n) | ('mem', disp, base, index, scale) | ('sym', text)"""
    o = o.strip()
    if o.startswith('$'):
        v = o[1:]
        try:
            return ('imm', int(v, 0))
        except ValueError:
            return ('imm', v)
    if o.startswith('%'):
        r = o[1:]
        if r.startswith('xmm'):
            return ('xmm', int(r[3:]))
        m = re.match(r'^st\((\d)\)$', r)
        if m:
            return ('st', int(m.group(1)))
        if r == 'st':
            return ('st', 0)
        if r.startswith('fs:'):
            return ('mem', r, None, None, None)
        return ('reg', r)
    m = _MEM.match(o)
    if m:
        disp, base, idx, sc = m.groups()
        try:
            disp = int(disp) if disp not in (None, '') else 0
        except ValueError:
            pass
        return ('mem', disp, base[1:], idx[1:] if idx else None, int(sc) if sc else None)
    if o.startswith('*'):
        return ('ind', parse_operand(o[1:]))
    return ('sym', o)


class Machine:
    def __init__(self, raw_rsp=False, ret_x87=False):
        self.raw_rsp = raw_rsp      # treat %rsp as an ordinary register (for code that computes with it, e.g. alloca)
        self.ret_x87 = ret_x87      # the callee of the emitted call returns its value in %st(0) (long double / class X87 aggregate)

    # ---- operand access ---------------------------------------------------
    def addr(self, s, op):
        _, disp, base, idx, sc = op
        if base is None:
            return ('abs', disp)
        if base == 'rip':
            return ('sym', disp)
        b = s.reg[SUB[base][0]] if base in SUB else ('init', base)
        a = ('addr', b, disp)
        if idx:
            a = ('addr', norm_bin('add', 64, b, norm_bin('mul', 64, s.rd(idx), C(sc or 1))), disp)
        return a

    def load(self, s, op, w):
        _, disp, base, idx, sc = op
        if base == 'rsp' and isinstance(disp, int) and not idx:
            if disp == 0 and s.stack:
                t = s.stack[-1]
                return lo(w, t) if w < 64 else t
            if disp > 0 and disp % 8 == 0 and w == 64 and disp // 8 < len(s.stack):
                return s.stack[-1 - disp // 8]
            k = ('rsp', disp)
            if k in s.scratch:
                sw, t = s.scratch[k]
                if sw == w:
                    return t
                if w < sw and not isinstance(t, tuple):
                    raise Unknown('scratch')
                if w < sw:
                    return lo(w, t) if t[0] not in ('fval',) else ('lo', w, t)
            return ('mem', w, ('rsp', disp))
        a = self.addr(s, op)
        for (sa, sw, sv, sk) in reversed(s.stores):
            if sa == a and sw == w:
                return sv
            if sa[0] == a[0] == 'addr' and sa[1] == a[1] and isinstance(sa[2], int) and isinstance(a[2], int):
                if sa[2] < a[2] + w // 8 and a[2] < sa[2] + sw // 8:
                    break      # partial overlap: give up forwarding
                continue
            break              # a store through another base may alias
        return ('mem', w, a)

    def store(self, s, op, w, t, kind='int'):
        _, disp, base, idx, sc = op
        if base == 'rsp' and isinstance(disp, int) and not idx:
            if disp == 0 and s.stack and w == 64:
                s.stack[-1] = t
                return
            if disp >= 0 and disp // 8 < len(s.stack):
                pos = len(s.stack) - 1 - disp // 8
                if w == 64 and disp % 8 == 0:
                    s.stack[pos] = t
                    return
                if w == 128 and disp % 8 == 0 and pos >= 1:
                    s.stack[pos] = ('f80lo', t); s.stack[pos - 1] = ('f80hi', t)
                    return
                if w < 64 and disp % 8 + w // 8 <= 8:
                    old = s.stack[pos]
                    d = dict(old[1]) if (isinstance(old, tuple) and old[0] == 'bytes') else {}
                    for j in range(w // 8):
                        d[disp % 8 + j] = t if w == 8 else ('bytepart', t, j)
                    s.stack[pos] = ('bytes', d)
                    return
            s.scratch[('rsp', disp)] = (w, t)
            return
        s.stores.append((self.addr(s, op), w, t, kind))

    def opw(self, mn, base, ops):
        """operand width of an integer instruction"""
        suf = mn[len(base):]
        for o in ops:
            if o[0] == 'reg' and o[1] in SUB:
                return SUB[o[1]][1]
            if o[0] == 'reg' and o[1] in HIGH8:
                return 8
        if suf in SUFFIX_W:
            return SUFFIX_W[suf]
        raise Unknown('operand width of ' + mn)

    def val(self, s, o, w):
        if o[0] == 'imm':
            if not isinstance(o[1], int):
                return ('immsym', o[1])
            return C(o[1] & ((1 << w) - 1))
        if o[0] == 'reg':
            if o[1] in HIGH8:
                return ('junk', 8)
            return s.rd(o[1])
        if o[0] == 'mem':
            return self.load(s, o, w)
        raise Unknown('operand %r' % (o,))

    def put(self, s, o, w, t):
        if o[0] == 'reg':
            if o[1] in HIGH8:
                s.reg[HIGH8[o[1]]] = ('junk', 64)
                return
            s.wr(o[1], t)
        elif o[0] == 'mem':
            self.store(s, o, w, t)
        else:
            raise Unknown('destination %r' % (o,))

    # ---- run -----------------------------------------------------------------
    def run(self, nodes, init, pseudo, max_paths=64):
        """nodes: output of chibi.linearise; init(state); pseudo(state, node) handles contract pseudo-ops.
        returns list of final states (one per path through the emitted code's own jumps)"""
        labels = {}
        for i, n in enumerate(nodes):
            if n[0] == 'label':
                labels.setdefault(n[1], []).append(i)
        s0 = State()
        init(s0)
        finals = []
        work = [(0, s0, {})]
        while work:
            i, s, visits = work.pop()
            while True:
                if i >= len(nodes):
                    finals.append(s); break
                n = nodes[i]
                if n[0] == 'label':
                    s.events.append(('label', n[1]))
                    i += 1; continue
                if n[0] == 'pseudo':
                    pseudo(s, n); i += 1; continue
                ins = parse_ins(n[1])
                if ins is None:
                    i += 1; continue
                mn, ops = ins
                if mn == 'jmp' or (mn.startswith('j') and mn[1:] in CC):
                    tgt = ops[0] if ops else ''
                    j = self._target(labels, tgt, i)
                    if mn == 'jmp':
                        if j is None:
                            s.events.append(('jump_out', tgt)); finals.append(s); break
                        visits = dict(visits); visits[i] = visits.get(i, 0) + 1
                        if visits[i] > 2:
                            break
                        i = j; continue
                    c = self.cond(s, CC[mn[1:]])
                    visits = dict(visits); visits[i] = visits.get(i, 0) + 1
                    if visits[i] > 2:
                        break
                    s2 = s.copy(); s2.cond.append((c, True)); s2.events.append(('branch', c, True))
                    if j is None:
                        s2.events.append(('jump_out', tgt)); finals.append(s2)
                    else:
                        work.append((j, s2, visits))
                    s.cond.append((c, False)); s.events.append(('branch', c, False))
                    i += 1
                    if len(work) + len(finals) > max_paths:
                        raise Unknown('too many paths through emitted code')
                    continue
                self.step(s, mn, [parse_operand(o) for o in ops], n[1])
                i += 1
        return finals

    def _target(self, labels, lab, i):
        m = re.match(r'^(\d+)([fb])$', lab)
        if m:
            c = labels.get(m.group(1), [])
            if m.group(2) == 'f':
                c = [j for j in c if j > i]
                return min(c) if c else None
            c = [j for j in c if j < i]
            return max(c) if c else None
        c = labels.get(lab)
        return c[0] if c else None

    def cond(self, s, cc):
        f = s.flags
        if f is None:
            raise Unknown('condition code used without flags')
        if f[0] == 'cmp':
            _, w, a, b = f
            if cc in ('p', 'np', 's', 'ns'):
                if cc in ('s', 'ns'):
                    return ('cmp', 'lt_s' if cc == 's' else 'ge_s', w, norm_bin('sub', w, a, b), C(0))
                raise Unknown('parity of integer compare')
            return ('cmp', cc, w, a, b)
        if f[0] == 'test':
            _, w, a, b = f
            t = a if a == b else norm_bin('and', w, a, b)
            if cc in ('eq', 'ne'):
                return ('cmp', cc, w, t, C(0))
            if cc in ('s', 'ns'):
                return ('cmp', 'lt_s' if cc == 's' else 'ge_s', w, t, C(0))
            raise Unknown('cc %s after test' % cc)
        if f[0] == 'res':
            _, w, t = f
            if cc in ('eq', 'ne'):
                return ('cmp', cc, w, t, C(0))
            if cc in ('s', 'ns'):
                return ('cmp', 'lt_s' if cc == 's' else 'ge_s', w, t, C(0))
            raise Unknown('cc %s after arithmetic' % cc)
        if f[0] == 'fcmp':
            _, prec, a, b = f
            return ('fcc', cc, prec, a, b)
        if f[0] == 'cas':
            if cc == 'eq':
                return ('cas_ok', f[1])
            if cc == 'ne':
                return ('cas_failed', f[1])
            raise Unknown('cc %s after cmpxchg' % cc)
        raise Unknown('flags %r' % (f,))

    # ---- one instruction ----------------------------------------------------------
    def step(self, s, mn, ops, text):
        m = getattr(self, 'i_' + mn.replace(' ', '_'), None)
        if m is not None:
            return m(s, ops)
        for base in ('movs', 'movz'):
            mm = re.match(r'^%s([bw])([lq])$' % base, mn)
            if mm:
                return self.movx(s, ops, base[-1], SUFFIX_W[mm.group(1)], SUFFIX_W[mm.group(2)])
        for base in ('mov', 'add', 'sub', 'imul', 'and', 'or', 'xor', 'cmp', 'test', 'shl', 'shr', 'sar', 'not', 'neg', 'div', 'idiv', 'inc', 'dec', 'lea', 'push', 'pop', 'xchg'):
            if mn.startswith(base) and mn[len(base):] in SUFFIX_W:
                return getattr(self, 'i_' + base)(s, ops, mn)
        if mn.startswith('set') and mn[3:] in CC:
            c = self.cond(s, CC[mn[3:]])
            return self.put(s, ops[0], 8, c)
        raise Unknown('instruction `%s`' % text)

    # moves
    def i_mov(self, s, ops, mn='mov'):
        w = self.opw(mn, 'mov', ops)
        if ops[0][0] == 'imm' and ops[1][0] == 'reg' and SUB.get(ops[1][1], (0, 0))[1] == 64 and isinstance(ops[0][1], int):
            return self.put(s, ops[1], 64, C(ops[0][1] & ((1 << 64) - 1)))
        self.put(s, ops[1], w, self.val(s, ops[0], w))

    def i_movq(self, s, ops):
        if ops[0][0] == 'xmm' or ops[1][0] == 'xmm':
            if ops[0][0] == 'xmm':
                t = ('bits', 64, s.xmm.get(ops[0][1], ('xinit', ops[0][1])))
                return self.put(s, ops[1], 64, t)
            v = self.val(s, ops[0], 64)
            s.xmm[ops[1][1]] = ('frombits', 64, v)
            return
        return self.i_mov(s, ops, 'movq')

    def i_movd(self, s, ops):
        if ops[0][0] == 'xmm':
            t = ('bits', 32, s.xmm.get(ops[0][1], ('xinit', ops[0][1])))
            return self.put(s, ops[1], 32, t)
        if ops[1][0] == 'xmm':
            v = self.val(s, ops[0], 32)
            s.xmm[ops[1][1]] = ('frombits', 32, v)
            return
        raise Unknown('movd without an xmm operand')

    def i_movl(self, s, ops):
        return self.i_mov(s, ops, 'movl')

    def i_movabs(self, s, ops):
        return self.i_mov(s, ops, 'mov')

    def movx(self, s, ops, kind, wf, wt):
        v = self.val(s, ops[0], wf)
        if ops[0][0] == 'reg':
            v = lo(wf, s.reg[SUB[ops[0][1]][0]])
        self.put(s, ops[1], wt, ext('sx' if kind == 's' else 'zx', wf, wt, v))

    def i_movzx(self, s, ops):
        wf = SUB[ops[0][1]][1] if ops[0][0] == 'reg' else None
        wt = SUB[ops[1][1]][1]
        if wf is None:
            raise Unknown('movzx from memory without suffix')
        self.movx(s, ops, 'z', wf, wt)

    def i_movzb(self, s, ops):
        self.movx(s, ops, 'z', 8, SUB[ops[1][1]][1])

    def i_movsxd(self, s, ops):
        self.movx(s, ops, 's', 32, 64)

    def i_movslq(self, s, ops):
        self.movx(s, ops, 's', 32, 64)

    def i_lea(self, s, ops, mn='lea'):
        self.put(s, ops[1], 64, ('addrof', 64, self.addr(s, ops[0])))

    def i_push(self, s, ops, mn='push'):
        s.stack.append(self.val(s, ops[0], 64))

    def i_pop(self, s, ops, mn='pop'):
        if not s.stack:
            raise Unknown('pop from an empty abstract stack')
        self.put(s, ops[0], 64, s.stack.pop())

    def i_xchg(self, s, ops, mn='xchg'):
        w = self.opw(mn, 'xchg', ops)
        a = self.val(s, ops[0], w); b = self.val(s, ops[1], w)
        if ops[1][0] == 'mem':
            s.events.append(('xchg', self.addr(s, ops[1]), w, a))
            self.put(s, ops[0], w, ('mem', w, self.addr(s, ops[1])))
            s.stores.append((self.addr(s, ops[1]), w, a, 'xchg'))
            return
        self.put(s, ops[0], w, b); self.put(s, ops[1], w, a)

    # arithmetic
    def _bin(self, s, ops, mn, base, op):
        w = self.opw(mn, base, ops)
        a = self.val(s, ops[1], w); b = self.val(s, ops[0], w)
        if op == 'xor' and ops[0] == ops[1]:
            r = C(0)
        else:
            r = norm_bin(op, w, a, b)
        self.put(s, ops[1], w, r)
        s.flags = ('res', w, r)

    def i_add(self, s, ops, mn='add'):
        if ops[1] == ('reg', 'rsp') and not self.raw_rsp:
            return self._rsp(s, ops, +1)
        self._bin(s, ops, mn, 'add', 'add')

    def i_sub(self, s, ops, mn='sub'):
        if ops[1] == ('reg', 'rsp') and not self.raw_rsp:
            return self._rsp(s, ops, -1)
        self._bin(s, ops, mn, 'sub', 'sub')

    def _rsp(self, s, ops, sign):
        if ops[0][0] != 'imm' or not isinstance(ops[0][1], int) or ops[0][1] % 8:
            raise Unknown('symbolic %rsp adjustment')
        n = ops[0][1] // 8
        if sign < 0:
            for _ in range(n):
                s.stack.append(('bytes', {}))
        else:
            for _ in range(n):
                if not s.stack:
                    raise Unknown('add to %rsp beyond the abstract stack')
                s.stack.pop()
        # scratch below rsp is relative to rsp: invalidate
        s.scratch = {}

    def i_addq(self, s, ops):
        return self.i_add(s, ops, 'addq')

    def i_imul(self, s, ops, mn='imul'):
        self._bin(s, ops, mn, 'imul', 'mul')

    def i_and(self, s, ops, mn='and'):
        w = self.opw(mn, 'and', ops)
        a = self.val(s, ops[1], w); b = self.val(s, ops[0], w)
        r = _fand(a, b) or norm_bin('and', w, a, b)
        self.put(s, ops[1], w, r)
        s.flags = ('res', w, r)

    def i_or(self, s, ops, mn='or'):
        w = self.opw(mn, 'or', ops)
        if ops[1][0] == 'reg' and ops[1][1] in HIGH8:
            s.reg[HIGH8[ops[1][1]]] = ('junk', 64); return
        a = self.val(s, ops[1], w); b = self.val(s, ops[0], w)
        r = _for(a, b) or norm_bin('or', w, a, b)
        self.put(s, ops[1], w, r)
        s.flags = ('res', w, r)

    def i_xor(self, s, ops, mn='xor'):
        self._bin(s, ops, mn, 'xor', 'xor')

    def i_cmp(self, s, ops, mn='cmp'):
        w = self.opw(mn, 'cmp', ops) if any(o[0] == 'reg' for o in ops) else SUFFIX_W.get(mn[3:], None)
        if w is None:
            raise Unknown('cmp width')
        s.flags = ('cmp', w, self.val(s, ops[1], w), self.val(s, ops[0], w))

    def i_test(self, s, ops, mn='test'):
        w = self.opw(mn, 'test', ops)
        s.flags = ('test', w, self.val(s, ops[1], w), self.val(s, ops[0], w))

    def _shift(self, s, ops, mn, base, op):
        if len(ops) == 1:
            ops = [('imm', 1), ops[0]]
        w = self.opw(mn, base, [ops[1]])
        a = self.val(s, ops[1], w)
        if ops[0][0] == 'imm':
            cnt = C(ops[0][1]) if isinstance(ops[0][1], int) else ('immsym', ops[0][1])
        else:
            cnt = s.rd('cl')
        if a[0] == 'c' and cnt[0] == 'c' and 0 <= cnt[1] < w:
            m = (1 << w) - 1
            if op == 'shl':
                r = C((a[1] << cnt[1]) & m)
            elif op == 'shr':
                r = C((a[1] & m) >> cnt[1])
            else:
                v = a[1] & m
                if v >> (w - 1):
                    v -= 1 << w
                r = C((v >> cnt[1]) & m)
        else:
            r = ('bin', op, w, a, cnt)
        self.put(s, ops[1], w, r)
        s.flags = ('res', w, r)

    def i_shl(self, s, ops, mn='shl'):
        self._shift(s, ops, mn, 'shl', 'shl')

    def i_shr(self, s, ops, mn='shr'):
        self._shift(s, ops, mn, 'shr', 'shr')

    def i_sar(self, s, ops, mn='sar'):
        self._shift(s, ops, mn, 'sar', 'sar')

    def i_not(self, s, ops, mn='not'):
        w = self.opw(mn, 'not', ops)
        self.put(s, ops[0], w, ('un', 'not', w, self.val(s, ops[0], w)))

    def i_neg(self, s, ops, mn='neg'):
        w = self.opw(mn, 'neg', ops)
        r = ('un', 'neg', w, self.val(s, ops[0], w))
        self.put(s, ops[0], w, r)
        s.flags = ('res', w, r)

    def i_inc(self, s, ops, mn='inc'):
        w = self.opw(mn, 'inc', ops)
        self.put(s, ops[0], w, norm_bin('add', w, self.val(s, ops[0], w), C(1)))

    def i_dec(self, s, ops, mn='dec'):
        w = self.opw(mn, 'dec', ops)
        self.put(s, ops[0], w, norm_bin('sub', w, self.val(s, ops[0], w), C(1)))

    def i_cqo(self, s, ops):
        s.reg['rdx'] = ('signof', 64, s.reg['rax'])

    def i_cdq(self, s, ops):
        s.wr('edx', ('signof', 32, lo(32, s.reg['rax'])))

    def i_div(self, s, ops, mn='div'):
        w = self.opw(mn, 'div', ops)
        hi = lo(w, s.reg['rdx']); a = lo(w, s.reg['rax']); b = self.val(s, ops[0], w)
        if hi != C(0):
            q, r = ('baddiv', w, hi, a, b), ('baddiv', w, hi, a, b)
        else:
            q, r = ('bin', 'udiv', w, a, b), ('bin', 'urem', w, a, b)
        self._divout(s, w, q, r)

    def i_idiv(self, s, ops, mn='idiv'):
        w = self.opw(mn, 'idiv', ops)
        hi = lo(w, s.reg['rdx']); a = lo(w, s.reg['rax']); b = self.val(s, ops[0], w)
        if hi != ('signof', w, a):
            q, r = ('baddiv', w, hi, a, b), ('baddiv', w, hi, a, b)
        else:
            q, r = ('bin', 'sdiv', w, a, b), ('bin', 'srem', w, a, b)
        self._divout(s, w, q, r)

    def _divout(self, s, w, q, r):
        if w == 64:
            s.reg['rax'] = q; s.reg['rdx'] = r
        else:
            s.wr('eax', q); s.wr('edx', r)

    def i_call(self, s, ops):
        s.events.append(('callsite', ops[0], dict(s.reg), dict(s.xmm), list(s.stack), list(s.st)))
        s.events.append(('call', ops[0]))
        n = sum(1 for e in s.events if e[0] == 'call')
        for r in ('rax', 'rcx', 'rdx', 'rsi', 'rdi', 'r8', 'r9', 'r10', 'r11'):
            s.reg[r] = ('clobber', r)
        # return registers of the callee
        s.reg['rax'] = ('ret', 'rax', n); s.reg['rdx'] = ('ret', 'rdx', n)
        for x in range(16):
            s.xmm[x] = ('retx', x, n) if x < 2 else ('clobber', 'xmm%d' % x)
        if self.ret_x87:
            s.st.append(('retst', n))

    def i_lock_cmpxchg(self, s, ops):
        self._cmpxchg(s, ops, True)

    def i_cmpxchg(self, s, ops):
        self._cmpxchg(s, ops, False)

    def _cmpxchg(self, s, ops, locked):
        if ops[1][0] != 'mem' or ops[0][0] != 'reg':
            raise Unknown('cmpxchg operands')
        w = SUB[ops[0][1]][1]
        addr = self.addr(s, ops[1])
        ev = ('cmpxchg', locked, w, addr, lo(w, s.reg['rax']), s.rd(ops[0][1]))
        s.events.append(ev)
        n = sum(1 for e in s.events if e[0] == 'cmpxchg')
        s.flags = ('cas', n)
        # on failure the accumulator receives the observed value (same width as the operand)
        obs = ('observed', w, addr, n)
        if w == 64:
            s.reg['rax'] = ('casax', 64, s.reg['rax'], obs, n)
        elif w == 32:
            s.reg['rax'] = ('casax', 64, s.reg['rax'], ext('zx', 32, 64, obs), n)
        else:
            s.reg['rax'] = ('casax', 64, s.reg['rax'], ('ins', w, s.reg['rax'], obs), n)

    def i_ret(self, s, ops):
        s.events.append(('ret',))

    def i_rep(self, s, ops):
        s.events.append(('rep', ops))

    def i_cld(self, s, ops):
        pass

    # ---- SSE -------------------------------------------------------------------------
    def _x(self, s, o):
        if o[0] == 'xmm':
            return s.xmm.get(o[1], ('xinit', o[1]))
        raise Unknown('xmm operand %r' % (o,))

    def _fmov(self, s, ops, prec):
        src, dst = ops
        if src[0] == 'xmm' and dst[0] == 'xmm':
            s.xmm[dst[1]] = self._x(s, src)
        elif src[0] == 'xmm':
            self.store(s, dst, prec, ('fval', prec, self._x(s, src)), kind='f%d' % prec)
        elif src[0] == 'mem':
            v = self.load(s, src, prec)
            if v[0] == 'fval' and v[1] == prec:
                v = v[2]
            elif v[0] == 'mem':
                v = ('fmem', prec, v[2])
            else:
                v = ('frombits', prec, v)
            s.xmm[dst[1]] = v
        else:
            raise Unknown('movs[sd] operands')

    def i_movss(self, s, ops):
        self._fmov(s, ops, 32)

    def i_movsd(self, s, ops):
        self._fmov(s, ops, 64)

    def _fbin(self, s, ops, op, prec):
        a = self._x(s, ops[1]); b = self._x(s, ops[0])
        if op in ('add', 'mul') and repr(a) > repr(b):
            a, b = b, a
        s.xmm[ops[1][1]] = ('fbin', op, prec, a, b)

    def i_addss(self, s, ops): self._fbin(s, ops, 'add', 32)
    def i_subss(self, s, ops): self._fbin(s, ops, 'sub', 32)
    def i_mulss(self, s, ops): self._fbin(s, ops, 'mul', 32)
    def i_divss(self, s, ops): self._fbin(s, ops, 'div', 32)
    def i_addsd(self, s, ops): self._fbin(s, ops, 'add', 64)
    def i_subsd(self, s, ops): self._fbin(s, ops, 'sub', 64)
    def i_mulsd(self, s, ops): self._fbin(s, ops, 'mul', 64)
    def i_divsd(self, s, ops): self._fbin(s, ops, 'div', 64)

    def _ucomi(self, s, ops, prec):
        s.flags = ('fcmp', prec, self._x(s, ops[1]), self._x(s, ops[0]))

    def i_ucomiss(self, s, ops): self._ucomi(s, ops, 32)
    def i_ucomisd(self, s, ops): self._ucomi(s, ops, 64)
    def i_comiss(self, s, ops): self._ucomi(s, ops, 32)
    def i_comisd(self, s, ops): self._ucomi(s, ops, 64)

    def _fxor(self, s, ops, prec):
        if ops[0] == ops[1]:
            s.xmm[ops[1][1]] = ('fconst', prec, 0)
        else:
            s.xmm[ops[1][1]] = ('fxor', prec, self._x(s, ops[1]), self._x(s, ops[0]))

    def _xcopy(self, s, ops):
        if ops[0][0] == 'xmm' and ops[1][0] == 'xmm':
            s.xmm[ops[1][1]] = s.xmm.get(ops[0][1], ('xinit', ops[0][1]))
            return
        raise Unknown('packed move with a memory operand')

    def i_movaps(self, s, ops): self._xcopy(s, ops)
    def i_movapd(self, s, ops): self._xcopy(s, ops)
    def i_movups(self, s, ops): self._xcopy(s, ops)
    def i_movupd(self, s, ops): self._xcopy(s, ops)
    def i_movdqa(self, s, ops): self._xcopy(s, ops)
    def i_movdqu(self, s, ops): self._xcopy(s, ops)

    def i_xorps(self, s, ops): self._fxor(s, ops, 32)
    def i_xorpd(self, s, ops): self._fxor(s, ops, 64)
    def i_pxor(self, s, ops): self._fxor(s, ops, 64)

    def _cvt_i2f(self, s, ops, prec, w):
        v = self.val(s, ops[0], w)
        s.xmm[ops[1][1]] = ('i2f', prec, w, v)

    def i_cvtsi2ssl(self, s, ops): self._cvt_i2f(s, ops, 32, 32)
    def i_cvtsi2ssq(self, s, ops): self._cvt_i2f(s, ops, 32, 64)
    def i_cvtsi2sdl(self, s, ops): self._cvt_i2f(s, ops, 64, 32)
    def i_cvtsi2sdq(self, s, ops): self._cvt_i2f(s, ops, 64, 64)

    def i_cvtsi2sd(self, s, ops):
        self._cvt_i2f(s, ops, 64, SUB[ops[0][1]][1] if ops[0][0] == 'reg' else 32)

    def i_cvtsi2ss(self, s, ops):
        self._cvt_i2f(s, ops, 32, SUB[ops[0][1]][1] if ops[0][0] == 'reg' else 32)

    def _cvt_f2i(self, s, ops, prec, w):
        self.put(s, ops[1], w, ('cvt_i', w, 'trunc', prec, self._x(s, ops[0])))

    def i_cvttss2sil(self, s, ops): self._cvt_f2i(s, ops, 32, 32)
    def i_cvttss2siq(self, s, ops): self._cvt_f2i(s, ops, 32, 64)
    def i_cvttsd2sil(self, s, ops): self._cvt_f2i(s, ops, 64, 32)
    def i_cvttsd2siq(self, s, ops): self._cvt_f2i(s, ops, 64, 64)

    def _xm(self, s, o, prec):
        """scalar floating operand of precision prec: an xmm register or a memory operand"""
        if o[0] == 'mem':
            v = self.load(s, o, prec)
            if v[0] == 'fval' and v[1] == prec:
                return v[2]
            if v[0] == 'mem':
                return ('fmem', prec, v[2])
            return ('frombits', prec, v)
        return self._x(s, o)

    def i_cvtss2sd(self, s, ops):
        s.xmm[ops[1][1]] = ('f2f', 32, 64, self._xm(s, ops[0], 32))

    def i_cvtsd2ss(self, s, ops):
        s.xmm[ops[1][1]] = ('f2f', 64, 32, self._xm(s, ops[0], 64))

    # ---- x87 ---------------------------------------------------------------------------
    def _fld(self, s, ops, prec):
        v = self.load(s, ops[0], prec if prec != 80 else 128)
        if prec == 80 and v[0] == 'f80lo' and isinstance(v[1], tuple) and v[1][0] == 'fval' and v[1][1] == 80:
            s.st.append(v[1][2])        # reload of an 80-bit value spilled to a pushed 16-byte slot by fstpt
        elif v[0] == 'fval' and v[1] == prec:
            s.st.append(v[2] if prec == 80 else ('f2f', prec, 80, v[2]))
        elif v[0] == 'mem':
            s.st.append(('fmem', prec, v[2]) if prec == 80 else ('f2f', prec, 80, ('fmem', prec, v[2])))
        else:
            s.st.append(('f2f', prec, 80, ('frombits', prec, v)))

    def i_flds(self, s, ops): self._fld(s, ops, 32)
    def i_fldl(self, s, ops): self._fld(s, ops, 64)
    def i_fldt(self, s, ops): self._fld(s, ops, 80)

    def i_fld(self, s, ops):
        if ops and ops[0][0] == 'st':
            if len(s.st) <= ops[0][1]:
                raise Unknown('fld %st(i) beyond the abstract x87 stack')
            s.st.append(s.st[-1 - ops[0][1]])
            return
        raise Unknown('fld operand')

    def i_fldz(self, s, ops):
        s.st.append(('fconst', 80, 0))

    def _fild(self, s, ops, w):
        s.st.append(('i2f', 80, w, self.load(s, ops[0], w)))

    def i_filds(self, s, ops): self._fild(s, ops, 16)
    def i_fildl(self, s, ops): self._fild(s, ops, 32)
    def i_fildq(self, s, ops): self._fild(s, ops, 64)
    def i_fildll(self, s, ops): self._fild(s, ops, 64)

    def _pop87(self, s):
        if not s.st:
            raise Unknown('x87 pop from empty abstract stack')
        return s.st.pop()

    def _fstp(self, s, ops, prec):
        v = self._pop87(s)
        t = v if prec == 80 else ('f2f', 80, prec, v)
        if t[0] == 'f2f' and t[3][0] == 'f2f' and t[3][1] == t[2] and t[3][2] == t[1]:
            pass
        self.store(s, ops[0], prec if prec != 80 else 128, ('fval', prec, t), kind='f%d' % prec)

    def i_fstps(self, s, ops): self._fstp(s, ops, 32)
    def i_fstpl(self, s, ops): self._fstp(s, ops, 64)
    def i_fstpt(self, s, ops): self._fstp(s, ops, 80)

    def i_fstp(self, s, ops):
        if ops and ops[0][0] == 'st':
            v = self._pop87(s)
            if ops[0][1] > 0:
                s.st[-ops[0][1]] = v
            return
        raise Unknown('fstp operand')

    def _fistp(self, s, ops, w):
        v = self._pop87(s)
        mode = 'trunc' if s.df == 'trunc' else 'cw'
        self.store(s, ops[0], w, ('cvt_i', w, mode, 80, v))

    def i_fistps(self, s, ops): self._fistp(s, ops, 16)
    def i_fistpl(self, s, ops): self._fistp(s, ops, 32)
    def i_fistpq(self, s, ops): self._fistp(s, ops, 64)
    def i_fistpll(self, s, ops): self._fistp(s, ops, 64)

    def _f2(self, s, op, rev):
        a = self._pop87(s)    # st0
        b = self._pop87(s)    # st1
        x, y = (b, a) if rev else (a, b)
        if op in ('add', 'mul') and repr(x) > repr(y):
            x, y = y, x
        s.st.append(('fbin', op, 80, x, y))

    # GNU as (AT&T) no-operand forms, st0=a st1=b:  fsubrp -> b-a, fsubp -> a-b, fdivrp -> b/a, fdivp -> a/b
    def i_faddp(self, s, ops): self._f2(s, 'add', False)
    def i_fmulp(self, s, ops): self._f2(s, 'mul', False)
    def i_fsubrp(self, s, ops): self._f2(s, 'sub', True)
    def i_fsubp(self, s, ops): self._f2(s, 'sub', False)
    def i_fdivrp(self, s, ops): self._f2(s, 'div', True)
    def i_fdivp(self, s, ops): self._f2(s, 'div', False)

    def i_fchs(self, s, ops):
        s.st.append(('fneg', 80, self._pop87(s)))

    def i_fxch(self, s, ops):
        i = ops[0][1] if (ops and ops[0][0] == 'st') else 1
        if not ops or ops[0][0] == 'st':
            if len(s.st) <= i:
                raise Unknown('fxch %st(i) beyond the abstract x87 stack')
            if i:
                s.st[-1], s.st[-1 - i] = s.st[-1 - i], s.st[-1]
            return
        raise Unknown('fxch operand')

    def _fcomip(self, s, ops):
        a = self._pop87(s)
        if not s.st:
            raise Unknown('fcomip with one x87 value')
        s.flags = ('fcmp', 80, a, s.st[-1])

    def i_fcomip(self, s, ops): self._fcomip(s, ops)
    def i_fucomip(self, s, ops): self._fcomip(s, ops)

    def i_fnstcw(self, s, ops):
        self.store(s, ops[0], 16, ('cw',))

    def i_fldcw(self, s, ops):
        v = self.load(s, ops[0], 16)
        # chibicc: saved cw | 0x0c00 => round toward zero; reload of the saved word restores
        s.df = 'restored' if v == ('cw',) else 'trunc'

    def i_fadds(self, s, ops):
        v = self.load(s, ops[0], 32)
        a = self._pop87(s)
        s.st.append(('fbin', 'add', 80, a, ('f2f', 32, 80, ('frombits', 32, v))))

    def i_fsubs(self, s, ops):
        v = self.load(s, ops[0], 32)
        a = self._pop87(s)
        s.st.append(('fbin', 'sub', 80, a, ('f2f', 32, 80, ('frombits', 32, v))))


def _fcc_pair(a, b):
    if a[0] == 'fcc' and b[0] == 'fcc' and a[2:] == b[2:]:
        return {a[1], b[1]}, a[2:]
    return None, None


def _fand(a, b):
    cs, rest = _fcc_pair(a, b)
    if cs == {'eq', 'np'}:
        return ('feq',) + rest
    return None


def _for(a, b):
    cs, rest = _fcc_pair(a, b)
    if cs == {'ne', 'p'}:
        return ('fne',) + rest
    return None
